package route

import (
	"encoding/json"
	"fmt"
	"io"
	"net"
	"os"
	"path/filepath"
	"sync"

	"github.com/elementsproject/glightning/glightning"
)

// FakeCln is a lightningd JSON-RPC socket that decodes the invoices of the
// world, accepts sendpay and completes waitsendpay.  Every request is logged.
type FakeCln struct {
	Dir, File string
	Inv       *Invoices
	ln        net.Listener

	// OnPay is consulted for every payment-creating command; fail=true makes
	// the node answer with a routing failure (the payment attempt was made)
	OnPay func() (fail bool)

	mu    sync.Mutex
	calls []ClnCall
}

type ClnCall struct {
	Method string
	Params json.RawMessage
}

type clnReq struct {
	ID     json.RawMessage `json:"id"`
	Method string          `json:"method"`
	Params json.RawMessage `json:"params"`
}

func StartFakeCln(dir string, inv *Invoices) (*FakeCln, error) {
	f := &FakeCln{Dir: dir, File: "lightning-rpc", Inv: inv}
	p := filepath.Join(dir, f.File)
	_ = os.Remove(p)
	ln, err := net.Listen("unix", p)
	if err != nil {
		return nil, err
	}
	f.ln = ln
	go func() {
		for {
			c, err := ln.Accept()
			if err != nil {
				return
			}
			go f.serve(c)
		}
	}()
	return f, nil
}

func (f *FakeCln) Close() { f.ln.Close() }

func (f *FakeCln) Reset() {
	f.mu.Lock()
	f.calls = nil
	f.mu.Unlock()
}

// Seen: number of requests of any kind since Reset.
func (f *FakeCln) Seen() int { return len(f.Calls()) }

func (f *FakeCln) Calls() []ClnCall {
	f.mu.Lock()
	defer f.mu.Unlock()
	return append([]ClnCall(nil), f.calls...)
}

func (f *FakeCln) serve(c net.Conn) {
	defer c.Close()
	dec := json.NewDecoder(c)
	for {
		var r clnReq
		if err := dec.Decode(&r); err != nil {
			if err != io.EOF {
				return
			}
			return
		}
		f.mu.Lock()
		f.calls = append(f.calls, ClnCall{r.Method, r.Params})
		f.mu.Unlock()
		res, rerr := f.handle(r.Method, r.Params)
		var out []byte
		if rerr != nil {
			out, _ = json.Marshal(map[string]any{"jsonrpc": "2.0", "id": r.ID,
				"error": map[string]any{"code": rerr.code, "message": rerr.msg}})
		} else {
			out, _ = json.Marshal(map[string]any{"jsonrpc": "2.0", "id": r.ID, "result": res})
		}
		out = append(out, '\n', '\n')
		if _, err := c.Write(out); err != nil {
			return
		}
	}
}

type clnErr struct {
	code int
	msg  string
}

func (f *FakeCln) handle(method string, params json.RawMessage) (any, *clnErr) {
	switch method {
	case "decode":
		var p struct {
			String string `json:"string"`
		}
		_ = json.Unmarshal(params, &p)
		iv := f.Inv.Get(p.String)
		if iv == nil {
			return nil, &clnErr{-32602, "unknown invoice"}
		}
		if iv.Cltv < 0 {
			// `decode` cannot express it; the client falls back to decodepay
			return nil, &clnErr{-32601, "Unknown command 'decode'"}
		}
		return map[string]any{
			"type": "bolt11 invoice", "valid": true, "currency": "bc", "created_at": 1700000000, "expiry": 3600,
			"payee": iv.Payee, "amount_msat": iv.Msat, "payment_hash": iv.Hash, "description": "verif",
			"min_final_cltv_expiry": uint64(iv.Cltv), "payment_secret": iv.Secret, "signature": "00",
		}, nil
	case "decodepay":
		var p struct {
			Bolt11 string `json:"bolt11"`
		}
		_ = json.Unmarshal(params, &p)
		iv := f.Inv.Get(p.Bolt11)
		if iv == nil {
			return nil, &clnErr{-32602, "unknown invoice"}
		}
		return map[string]any{
			"currency": "bc", "created_at": 1700000000, "expiry": 3600,
			"payee": iv.Payee, "amount_msat": iv.Msat, "payment_hash": iv.Hash, "description": "verif",
			"min_final_cltv_expiry": iv.Cltv, "payment_secret": iv.Secret, "signature": "00",
		}, nil
	case "sendpay":
		var p glightning.SendPayRequest
		_ = json.Unmarshal(params, &p)
		if f.OnPay != nil && f.OnPay() {
			return nil, &clnErr{204, "failed: WIRE_TEMPORARY_CHANNEL_FAILURE (verif: attempt failed at the node)"}
		}
		return map[string]any{"message": "Monitor status with listpays or waitsendpay", "id": 1, "payment_hash": p.PaymentHash,
			"amount_msat": p.MilliSatoshis, "amount_sent_msat": p.MilliSatoshis, "created_at": 1700000001, "status": "pending"}, nil
	case "waitsendpay":
		var p struct {
			Hash string `json:"payment_hash"`
		}
		_ = json.Unmarshal(params, &p)
		iv := f.Inv.ByHash(p.Hash)
		if iv == nil {
			return nil, &clnErr{208, "never heard of this payment"}
		}
		return map[string]any{"id": 1, "payment_hash": p.Hash, "amount_msat": iv.Msat, "amount_sent_msat": iv.Msat,
			"created_at": 1700000001, "status": "complete", "payment_preimage": iv.Preimage}, nil
	case "listsendpays":
		var p struct {
			Hash string `json:"payment_hash"`
		}
		_ = json.Unmarshal(params, &p)
		iv := f.Inv.ByHash(p.Hash)
		pays := []any{}
		if iv != nil && iv.Found {
			pays = append(pays, map[string]any{"id": 1, "payment_hash": p.Hash, "amount_msat": iv.Msat, "amount_sent_msat": iv.Msat,
				"created_at": 1700000001, "status": "complete", "payment_preimage": iv.Preimage})
		}
		return map[string]any{"payments": pays}, nil
	}
	return nil, &clnErr{-32601, fmt.Sprintf("Unknown command '%s'", method)}
}

// payment-creating commands of lightningd
var clnPayMethods = map[string]bool{"sendpay": true, "pay": true, "xpay": true, "renepay": true, "keysend": true,
	"sendonion": true, "sendpsbt": false}

// WireOf renders what the node was asked to pay.  payreq is the invoice the
// caller wanted paid.
func (f *FakeCln) WireOf(payreq string) Wire {
	w := NoWire()
	var first *glightning.SendPayRequest
	var firstRaw map[string]json.RawMessage
	for _, c := range f.Calls() {
		if !clnPayMethods[c.Method] {
			continue
		}
		w.Calls++
		if c.Method == "sendpay" && first == nil {
			var p glightning.SendPayRequest
			if err := json.Unmarshal(c.Params, &p); err == nil {
				first = &p
				_ = json.Unmarshal(c.Params, &firstRaw)
			}
		}
	}
	if w.Calls == 0 {
		return w
	}
	w.Sent = true
	if first == nil {
		// an unconstrained pay command: no route was fixed
		return w
	}
	return clnWire(w, first.Route, first.MilliSatoshis, first.Bolt11, first.PaymentHash, first.PaymentSecret, first.PartId, f.Inv.Get(payreq))
}

func clnWire(w Wire, route []glightning.RouteHop, total uint64, bolt11, hash, secret string, partid uint64, iv *Invoice) Wire {
	w.Sent = true
	w.Hops = len(route)
	for _, h := range route {
		w.Chans = append(w.Chans, h.ShortChannelId)
	}
	if len(route) > 0 {
		last := route[len(route)-1]
		w.Dest = NodeName(last.Id)
		w.Amt = AmountClass(last.AmountMsat.MSat())
		w.Delta = SpecOr(int64(route[0].Delay))
	}
	w.Total = AmountClass(total)
	w.Parts = 1
	if partid != 0 {
		w.Parts = 2
	}
	w.Ref = iv != nil && bolt11 == iv.Payreq && hash == iv.Hash && secret == iv.Secret
	return w
}

// ClnBuilderWire renders the answer of the bare route builder.
func ClnBuilderWire(route []glightning.RouteHop, iv *Invoice) Wire {
	w := NoWire()
	w.Calls = 1
	w = clnWire(w, route, 0, iv.Payreq, iv.Hash, iv.Secret, 0, iv)
	w.Total = w.Amt // the builder fixes the hop amount only
	return w
}

// DecodedBolt11 is the builder's input for an invoice.
func DecodedBolt11(iv *Invoice) *glightning.DecodedBolt11 {
	return &glightning.DecodedBolt11{
		Currency: "bc", Payee: iv.Payee, AmountMsat: glightning.AmountFromMSat(iv.Msat), MinFinalCltvExpiry: int(iv.Cltv),
		PaymentHash: iv.Hash, PaymentSecret: iv.Secret,
	}
}
