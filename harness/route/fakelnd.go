package route

import (
	"context"
	"encoding/hex"
	"errors"
	"io"
	"math"
	"sync"

	"github.com/lightningnetwork/lnd/lnrpc"
	"github.com/lightningnetwork/lnd/lnrpc/routerrpc"
	"google.golang.org/grpc"
	"google.golang.org/protobuf/proto"
)

// FakeLnd implements the parts of lnrpc.LightningClient and
// routerrpc.RouterClient the payment paths use; every other method panics on
// the nil embedded interface (reported by the harness as a machinery error).
type FakeLnd struct {
	lnrpc.LightningClient
	Inv *Invoices
	// OnPay: see FakeCln.OnPay
	OnPay func() (fail bool)

	mu    sync.Mutex
	sends []*routerrpc.SendPaymentRequest
	other []string
	seen  int
}

// Seen: number of requests of any kind since Reset.
func (l *FakeLnd) Seen() int {
	l.mu.Lock()
	defer l.mu.Unlock()
	return l.seen + len(l.sends) + len(l.other)
}

type FakeRouter struct {
	routerrpc.RouterClient
	L *FakeLnd
}

func NewFakeLnd(inv *Invoices) (*FakeLnd, *FakeRouter) {
	l := &FakeLnd{Inv: inv}
	return l, &FakeRouter{L: l}
}

func (l *FakeLnd) Reset() {
	l.mu.Lock()
	l.sends, l.other, l.seen = nil, nil, 0
	l.mu.Unlock()
}

func (l *FakeLnd) DecodePayReq(ctx context.Context, in *lnrpc.PayReqString, _ ...grpc.CallOption) (*lnrpc.PayReq, error) {
	l.mu.Lock()
	l.seen++
	l.mu.Unlock()
	iv := l.Inv.Get(in.PayReq)
	if iv == nil {
		return nil, errors.New("unknown invoice")
	}
	addr, _ := hex.DecodeString(iv.Secret)
	msat := int64(math.MaxInt64)
	if iv.Msat < math.MaxInt64 {
		msat = int64(iv.Msat)
	}
	return &lnrpc.PayReq{Destination: iv.Payee, PaymentHash: iv.Hash, NumSatoshis: msat / 1000, NumMsat: msat,
		Timestamp: 1700000000, Expiry: 3600, CltvExpiry: iv.Cltv, PaymentAddr: addr}, nil
}

func LndChannel(c Channel) *lnrpc.Channel {
	return &lnrpc.Channel{Active: true, RemotePubkey: c.Peer, ChanId: c.ID(), Capacity: math.MaxInt64,
		LocalBalance: math.MaxInt64, ChannelPoint: "00:0"}
}

func (l *FakeLnd) ListChannels(ctx context.Context, in *lnrpc.ListChannelsRequest, _ ...grpc.CallOption) (*lnrpc.ListChannelsResponse, error) {
	res := &lnrpc.ListChannelsResponse{}
	for _, c := range Channels {
		res.Channels = append(res.Channels, LndChannel(c))
	}
	return res, nil
}

type payStream struct {
	grpc.ClientStream
	p    *lnrpc.Payment
	err  error
	done bool
}

func (s *payStream) Recv() (*lnrpc.Payment, error) {
	if s.err != nil {
		return nil, s.err
	}
	if s.done {
		return nil, io.EOF
	}
	s.done = true
	return s.p, nil
}

func (r *FakeRouter) SendPaymentV2(ctx context.Context, in *routerrpc.SendPaymentRequest, _ ...grpc.CallOption) (routerrpc.Router_SendPaymentV2Client, error) {
	r.L.mu.Lock()
	r.L.sends = append(r.L.sends, proto.Clone(in).(*routerrpc.SendPaymentRequest))
	r.L.mu.Unlock()
	iv := r.L.Inv.Get(in.PaymentRequest)
	if iv == nil || (r.L.OnPay != nil && r.L.OnPay()) {
		return &payStream{p: &lnrpc.Payment{Status: lnrpc.Payment_FAILED, FailureReason: lnrpc.PaymentFailureReason_FAILURE_REASON_NO_ROUTE}}, nil
	}
	return &payStream{p: &lnrpc.Payment{Status: lnrpc.Payment_SUCCEEDED, PaymentPreimage: iv.Preimage, PaymentHash: iv.Hash}}, nil
}

func (r *FakeRouter) TrackPaymentV2(ctx context.Context, in *routerrpc.TrackPaymentRequest, _ ...grpc.CallOption) (routerrpc.Router_TrackPaymentV2Client, error) {
	r.L.mu.Lock()
	r.L.other = append(r.L.other, "TrackPaymentV2")
	r.L.mu.Unlock()
	iv := r.L.Inv.ByHash(hex.EncodeToString(in.PaymentHash))
	if iv == nil || !iv.Found {
		return &payStream{err: errors.New("payment isn't initiated")}, nil
	}
	return &payStream{p: &lnrpc.Payment{Status: lnrpc.Payment_SUCCEEDED, PaymentPreimage: iv.Preimage, PaymentHash: iv.Hash}}, nil
}

// WireOf renders what lnd was asked to pay.
func (l *FakeLnd) WireOf(payreq string) Wire {
	l.mu.Lock()
	sends := append([]*routerrpc.SendPaymentRequest(nil), l.sends...)
	l.mu.Unlock()
	w := NoWire()
	w.Calls = len(sends)
	if len(sends) == 0 {
		return w
	}
	return LndWire(w, sends[0], l.Inv, payreq)
}

// LndWire: the request constrains the route lnd may take.  One hop is
// guaranteed exactly when a single outgoing channel is named and the payment's
// destination is that channel's peer.
func LndWire(w Wire, req *routerrpc.SendPaymentRequest, inv *Invoices, payreq string) Wire {
	w.Sent = true
	iv := inv.Get(req.PaymentRequest)
	ids := append([]uint64(nil), req.OutgoingChanIds...)
	if req.OutgoingChanId != 0 { //nolint:staticcheck // deprecated field still honoured by lnd
		dup := false
		for _, id := range ids {
			dup = dup || id == req.OutgoingChanId //nolint:staticcheck
		}
		if !dup {
			ids = append(ids, req.OutgoingChanId) //nolint:staticcheck
		}
	}
	for _, id := range ids {
		if c, ok := ChannelByID(id); ok {
			w.Chans = append(w.Chans, c.ClnStyle())
		} else {
			w.Chans = append(w.Chans, "?")
		}
	}
	dest := ""
	switch {
	case len(req.Dest) > 0:
		dest = hex.EncodeToString(req.Dest)
	case iv != nil:
		dest = iv.Payee
	}
	w.Dest = NodeName(dest)
	if len(ids) == 1 {
		if c, ok := ChannelByID(ids[0]); ok && c.Peer == dest {
			w.Hops = 1
		}
	}
	switch {
	case req.Amt != 0:
		w.Amt = AmountClass(uint64(req.Amt) * 1000)
	case req.AmtMsat != 0:
		w.Amt = AmountClass(uint64(req.AmtMsat))
	case iv != nil:
		w.Amt = AmountClass(iv.Msat)
	}
	w.Total = w.Amt
	w.Parts = int(req.MaxParts)
	w.Delta = SpecOr(int64(req.CltvLimit))
	w.Ref = req.PaymentRequest == payreq && len(req.PaymentHash) == 0
	return w
}

// LndPayReq is the builder's input for an invoice.
func LndPayReq(iv *Invoice) *lnrpc.PayReq {
	msat := int64(math.MaxInt64)
	if iv.Msat < math.MaxInt64 {
		msat = int64(iv.Msat)
	}
	return &lnrpc.PayReq{Destination: iv.Payee, PaymentHash: iv.Hash, NumSatoshis: msat / 1000, NumMsat: msat, CltvExpiry: iv.Cltv}
}
