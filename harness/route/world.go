package route

import (
	"fmt"
	"strings"
	"sync"
)

// The little world both fake nodes share: two channels, two peers, invoices.
const (
	SelfID  = "02aaaaaaaaaaaaaaaaaaaaaaaaaaaaaaaaaaaaaaaaaaaaaaaaaaaaaaaaaaaaaaaa"
	PeerID  = "021111111111111111111111111111111111111111111111111111111111111111"
	OtherID = "032222222222222222222222222222222222222222222222222222222222222222"
)

type Channel struct {
	Name             string
	Block, Tx, Out   uint64
	Peer             string
}

var Channels = []Channel{
	{Name: "second", Block: 700124, Tx: 7, Out: 0, Peer: OtherID},
	{Name: "swap", Block: 700123, Tx: 45, Out: 1, Peer: PeerID},
}

func (c Channel) ID() uint64      { return c.Block<<40 | c.Tx<<16 | c.Out }
func (c Channel) ClnStyle() string { return fmt.Sprintf("%dx%dx%d", c.Block, c.Tx, c.Out) }

func ChannelByID(id uint64) (Channel, bool) {
	for _, c := range Channels {
		if c.ID() == id {
			return c, true
		}
	}
	return Channel{}, false
}

func NodeName(id string) string {
	switch id {
	case PeerID:
		return "peer"
	case OtherID:
		return "other"
	case SelfID:
		return "self"
	}
	return "?" + id
}

func NodeID(name string) string {
	switch name {
	case "peer":
		return PeerID
	case "other":
		return OtherID
	}
	return name
}

var amounts = map[string]uint64{"one": 1, "typ": 100_000_000, "large": 2_100_000_000_000_000_000}

func AmountOf(class string) uint64 { return amounts[class] }
func AmountClass(msat uint64) string {
	for k, v := range amounts {
		if v == msat {
			return k
		}
	}
	return fmt.Sprintf("?%d", msat)
}

// Invoice is what the fake nodes decode a payment request string to.
type Invoice struct {
	Payreq string
	Payee  string // node id
	Msat   uint64
	Cltv   int64
	Hash   string
	Secret string
	// Found: the node already has a completed outgoing payment for it
	Found    bool
	Preimage string
}

type Invoices struct {
	mu sync.Mutex
	m  map[string]*Invoice
}

func NewInvoices() *Invoices { return &Invoices{m: map[string]*Invoice{}} }

func (iv *Invoices) Put(i *Invoice) {
	iv.mu.Lock()
	defer iv.mu.Unlock()
	iv.m[i.Payreq] = i
}
func (iv *Invoices) Get(payreq string) *Invoice {
	iv.mu.Lock()
	defer iv.mu.Unlock()
	return iv.m[payreq]
}
func (iv *Invoices) ByHash(h string) *Invoice {
	iv.mu.Lock()
	defer iv.mu.Unlock()
	for _, i := range iv.m {
		if i.Hash == h {
			return i
		}
	}
	return nil
}
func (iv *Invoices) Clear() {
	iv.mu.Lock()
	defer iv.mu.Unlock()
	iv.m = map[string]*Invoice{}
}

// MakeInvoice builds a deterministic invoice for a case number.
func MakeInvoice(n int, payee string, msat uint64, cltv int64, found bool) *Invoice {
	h := fmt.Sprintf("%064x", n+1)
	return &Invoice{
		Payreq:   fmt.Sprintf("lnverif1case%d", n),
		Payee:    payee,
		Msat:     msat,
		Cltv:     cltv,
		Hash:     h,
		Secret:   strings.Repeat("5e", 32),
		Found:    found,
		Preimage: fmt.Sprintf("%064x", 0xabc000+n),
	}
}

// Wire is the payment as handed to the node, in the vocabulary of
// spec/Timelock.tla (record Sent / Refused).
type Wire struct {
	Sent  bool     `json:"sent"`
	Calls int      `json:"calls"`
	Hops  int      `json:"hops"`
	Chans []string `json:"chans"`
	Dest  string   `json:"dest"`
	Amt   string   `json:"amt"`
	Total string   `json:"total"`
	Parts int      `json:"parts"`
	Delta int64    `json:"delta"`
	// Ref: the payment references exactly the invoice that was passed
	// (bolt11 / payment_request string, payment hash, payment secret)
	Ref bool `json:"ref"`
}

func NoWire() Wire { return Wire{Chans: []string{}} }
