// Package route: fakes of lightningd / lnd and helpers for the `route` engine
// (C24, route and arithmetic clauses of C04 / C05).
package route

import "fmt"

// TLC integers are 32 bit, so spec/Timelock.tla is model-checked with a scaled
// U32 = 2^20 standing for 2^32.  Values live in four regions around 0, -U32/2,
// U32/2 and U32; Real maps a specification value to the value used on the real
// code (regions around 0, -2^31, 2^31, 2^32), Spec maps an answer back.  Inside
// a region the maps are translations, so small offsets, order and truncation
// to uint32 / int32 commute with them.
const (
	M      int64 = 1 << 20 // specification's U32
	radius int64 = M / 8
)

func region(v, centre int64) bool { return v >= centre-radius && v <= centre+radius }

// Real: specification value -> real value.
func Real(v int64) int64 {
	switch {
	case region(v, 0):
		return v
	case region(v, M/2):
		return v - M/2 + (1 << 31)
	case region(v, -M/2):
		return v + M/2 - (1 << 31)
	case region(v, M):
		return v - M + (1 << 32)
	}
	panic(fmt.Sprintf("scale: specification value %d outside the mapped regions", v))
}

// Spec: real value -> specification value (ok=false outside the regions).
func Spec(r int64) (int64, bool) {
	switch {
	case region(r, 0):
		return r, true
	case region(r, 1<<31):
		return r - (1 << 31) + M/2, true
	case region(r, -(1 << 31)):
		return r + (1 << 31) - M/2, true
	case region(r, 1<<32):
		return r - (1 << 32) + M, true
	}
	return 0, false
}

// SpecOr maps a real answer back; an answer outside every region is reported
// as the sentinel -999999 (never equal to a specification answer).
func SpecOr(r int64) int64 {
	if v, ok := Spec(r); ok {
		return v
	}
	return -999999
}
