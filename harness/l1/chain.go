package l1

import (
	"errors"
	"fmt"
	"sync"
)

// SimOut is one output of a simulated transaction.
type SimOut struct {
	Amount  uint64 `json:"amount"`
	Script  string `json:"script"`  // hex of pkScript (btc: real; lbtc: class string of the script parameters)
	Asset   string `json:"asset"`   // lbtc: "policy" | "other"
	Blind   string `json:"blind"`   // lbtc: "ok" | "wrongkey" | "explicit"
	SpentBy string `json:"spent_by"`
}

// SimTx is a transaction known to the simulated chain.
type SimTx struct {
	ID     string   `json:"id"`
	Hex    string   `json:"-"`
	Chain  string   `json:"chain"`
	ConfAt uint32   `json:"conf_at"` // 0 = mempool
	Outs   []SimOut `json:"outs"`
	Kind   string   `json:"kind"`  // opening | preimage | coop | csv | other
	Owner  string   `json:"owner"` // me | peer
	Spends string   `json:"spends"`
	Swap   string   `json:"swap"`
	Shape  string   `json:"shape"`
}

type confReg struct {
	swapID, txID  string
	vout          uint32
	start, window uint32
	done          bool
}
type csvReg struct {
	swapID, txID string
	vout         uint32
	start, csv   uint32
	done         bool
}

// SimChain is one simulated blockchain with a truthful watcher per node process.
type SimChain struct {
	w    *World
	Name string
	mu   sync.Mutex
	Tip  uint32
	Txs  map[string]*SimTx
}

func newSimChain(w *World, name string, tip uint32) *SimChain {
	return &SimChain{w: w, Name: name, Tip: tip, Txs: map[string]*SimTx{}}
}

func (c *SimChain) MinConf() uint32 {
	if c.Name == "btc" {
		return 3
	}
	return 2
}

func (c *SimChain) AddTx(tx *SimTx) {
	c.mu.Lock()
	tx.Chain = c.Name
	c.Txs[tx.ID] = tx
	c.mu.Unlock()
}

func (c *SimChain) Get(id string) *SimTx {
	c.mu.Lock()
	defer c.mu.Unlock()
	return c.Txs[id]
}

func (c *SimChain) tip() uint32 {
	c.mu.Lock()
	defer c.mu.Unlock()
	return c.Tip
}

// Blocks mines n blocks; mempool transactions named in include are confirmed in the first of them.
func (c *SimChain) Blocks(n uint32, include []string) {
	c.mu.Lock()
	first := c.Tip + 1
	c.Tip += n
	tip := c.Tip
	incl := []string{}
	for _, id := range include {
		if tx, ok := c.Txs[id]; ok && tx.ConfAt == 0 {
			tx.ConfAt = first
			incl = append(incl, id)
		}
	}
	c.mu.Unlock()
	c.w.Emit("block", Ev{"chain": c.Name, "tip": tip, "n": n, "included": incl, "conf_at": first})
	if c.w.Node != nil && !c.w.Node.dead() {
		c.w.Node.watcher[c.Name].poll()
	}
}

// depth of a tx output as the RPC watcher would see it via gettxout (0 = not visible).
func (c *SimChain) depth(txid string, vout uint32, needUnspent bool) uint32 {
	c.mu.Lock()
	defer c.mu.Unlock()
	tx, ok := c.Txs[txid]
	if !ok || tx.ConfAt == 0 || int(vout) >= len(tx.Outs) {
		return 0
	}
	if needUnspent && tx.Outs[vout].SpentBy != "" {
		return 0
	}
	return c.Tip - tx.ConfAt + 1
}

// simWatcher implements swap.TxWatcher for one node process on one chain.
type simWatcher struct {
	c      *SimChain
	n      *Node
	mu     sync.Mutex
	conf   []*confReg
	csv    []*csvReg
	confCb func(swapId string, txHex string, err error) error
	csvCb  func(swapId string) error
}

func (s *simWatcher) AddWaitForConfirmationTx(swapID, txID string, vout, startingHeight, paymentWindow uint32, _ []byte) {
	s.c.w.gate(s.n, "watch.conf")
	s.mu.Lock()
	for _, r := range s.conf {
		if r.swapID == swapID {
			r.done = true
		}
	}
	s.conf = append(s.conf, &confReg{swapID: swapID, txID: txID, vout: vout, start: startingHeight, window: paymentWindow})
	s.mu.Unlock()
	s.c.w.Emit("watch.conf", Ev{"id": swapID, "chain": s.c.Name, "tx": txID, "vout": vout, "start": startingHeight, "window": paymentWindow})
	s.c.w.after(s.n, "watch.conf")
	s.poll()
}

func (s *simWatcher) AddWaitForCsvTx(swapID, txID string, vout, startingHeight, csv uint32, _ []byte) {
	s.c.w.gate(s.n, "watch.csv")
	s.mu.Lock()
	for _, r := range s.csv { // registrations are keyed by swap id (as in the real watchers): a new one replaces the old
		if r.swapID == swapID {
			r.done = true
		}
	}
	s.csv = append(s.csv, &csvReg{swapID: swapID, txID: txID, vout: vout, start: startingHeight, csv: csv})
	s.mu.Unlock()
	s.c.w.Emit("watch.csv", Ev{"id": swapID, "chain": s.c.Name, "tx": txID, "vout": vout, "start": startingHeight, "csv": csv})
	s.c.w.after(s.n, "watch.csv")
	s.poll()
}

func (s *simWatcher) AddConfirmationCallback(f func(swapId string, txHex string, err error) error) {
	s.confCb = f
}
func (s *simWatcher) AddCsvCallback(f func(swapId string) error) { s.csvCb = f }
func (s *simWatcher) StartWatchingTxs() error                  { return nil }

func (s *simWatcher) GetBlockHeight() (uint32, error) {
	o := s.c.w.gate(s.n, "chain.height")
	if o != "" {
		return 0, errors.New("sim: blockchain rpc unavailable")
	}
	// The claim-payment retry loop is bounded by wall-clock time in production
	// (120 s, one attempt per 10 s). The harness runs it with an unbounded time
	// budget and ends it deterministically after the same number of attempts.
	s.c.w.mu.Lock()
	attempts := s.c.w.gateOcc["ln.payclaim"]
	s.c.w.mu.Unlock()
	if attempts >= 12 {
		return 0, errors.New("sim: claim payment retry time is over")
	}
	h := s.c.tip()
	s.c.w.after(s.n, "chain.height")
	return h, nil
}

// poll evaluates all registrations truthfully and posts callbacks (never synchronous).
func (s *simWatcher) poll() {
	if s.n.dead() {
		return
	}
	s.mu.Lock()
	defer s.mu.Unlock()
	tip := s.c.tip()
	for _, r := range s.conf {
		if r.done {
			continue
		}
		r := r
		if uint64(tip) >= uint64(r.start)+uint64(r.window) {
			r.done = true
			s.c.w.post(func() {
				s.c.w.Emit("cb.conf", Ev{"id": r.swapID, "chain": s.c.Name, "ok": false, "tip": tip})
				if s.confCb != nil {
					s.confCb(r.swapID, "", fmt.Errorf("sim: payment window closed"))
				}
			})
			continue
		}
		if d := s.c.depth(r.txID, r.vout, false); d >= s.c.MinConf() {
			r.done = true
			hexs := s.c.Get(r.txID).Hex
			s.c.w.post(func() {
				s.c.w.Emit("cb.conf", Ev{"id": r.swapID, "chain": s.c.Name, "ok": true, "tip": tip, "tx": r.txID, "depth": d})
				if s.confCb != nil {
					s.confCb(r.swapID, hexs, nil)
				}
			})
		}
	}
	for _, r := range s.csv {
		if r.done {
			continue
		}
		r := r
		if d := s.c.depth(r.txID, r.vout, true); d >= r.csv {
			r.done = true
			s.c.w.post(func() {
				s.c.w.Emit("cb.csv", Ev{"id": r.swapID, "chain": s.c.Name, "tip": tip, "tx": r.txID, "depth": d})
				if s.csvCb != nil {
					s.csvCb(r.swapID)
				}
			})
		}
	}
}
