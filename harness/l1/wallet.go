package l1

import (
	"bytes"
	"crypto/sha256"
	"encoding/hex"
	"encoding/json"
	"errors"
	"fmt"

	"github.com/btcsuite/btcd/btcec/v2"
	"github.com/btcsuite/btcd/btcutil"
	"github.com/btcsuite/btcd/chaincfg"
	"github.com/btcsuite/btcd/chaincfg/chainhash"
	"github.com/btcsuite/btcd/wire"
	"github.com/elementsproject/peerswap/onchain"
	"github.com/elementsproject/peerswap/swap"
)

type nullEstimator struct{}

func (nullEstimator) EstimateFeePerKW(uint32) (btcutil.Amount, error) { return 1000, nil }
func (nullEstimator) Start() error                                     { return nil }

// RealBitcoin is the REAL Bitcoin validator / script builder of the repository.
var RealBitcoin = onchain.NewBitcoinOnChain(nullEstimator{}, 253, 253, &chaincfg.RegressionNetParams)

// ---- transactions -------------------------------------------------------

// OutSpec describes one output of an opening transaction in classes.
type OutSpec struct {
	Amt    string `json:"amt"`    // exact | minus | plus | other
	Script string `json:"script"` // good | swapkeys | otherkey | otherhash | othercsv | p2wpkh
	Asset  string `json:"asset"`  // policy | other            (lbtc)
	Blind  string `json:"blind"`  // ok | wrongkey | explicit  (lbtc)
}

func (o OutSpec) Good() bool {
	return o.Amt == "exact" && o.Script == "good" && (o.Asset == "" || o.Asset == "policy") && (o.Blind == "" || o.Blind == "ok")
}

func simScript(p *swap.OpeningParams, csv uint32) string {
	return fmt.Sprintf("S|%s|%s|%s|%d", p.TakerPubkey, p.MakerPubkey, p.ClaimPaymentHash, csv)
}

func variantParams(p *swap.OpeningParams, class string) (*swap.OpeningParams, uint32) {
	q := *p
	csv := p.CSV
	switch class {
	case "swapkeys":
		q.TakerPubkey, q.MakerPubkey = p.MakerPubkey, p.TakerPubkey
	case "otherkey":
		k, _ := btcec.NewPrivateKey()
		q.MakerPubkey = hex.EncodeToString(k.PubKey().SerializeCompressed())
	case "otherhash":
		q.ClaimPaymentHash = hashOf(randHex(32))
	case "othercsv":
		csv = p.CSV - 1
	}
	return &q, csv
}

func amountOf(class string, exact uint64) uint64 {
	switch class {
	case "exact":
		return exact
	case "minus":
		return exact - 1
	case "plus":
		return exact + 1
	}
	return exact/2 + 7
}

// BuildOpening builds an opening transaction of the given shape for the given
// swap parameters: a real wire.MsgTx on Bitcoin, a structured record on Liquid.
func BuildOpening(chain string, p *swap.OpeningParams, outs []OutSpec, blindKeyHex string) (*SimTx, error) {
	tx := &SimTx{Kind: "opening", Chain: chain}
	if chain == "btc" {
		m := wire.NewMsgTx(2)
		var prev chainhash.Hash
		copy(prev[:], mustHex(randHex(32)))
		m.AddTxIn(wire.NewTxIn(wire.NewOutPoint(&prev, 0), nil, nil))
		for _, o := range outs {
			var pk []byte
			if o.Script == "p2wpkh" {
				pk = append([]byte{0x00, 0x14}, mustHex(randHex(20))...)
			} else {
				q, csv := variantParams(p, o.Script)
				red, err := onchain.ParamsToTxScript(q, csv)
				if err != nil {
					return nil, err
				}
				wp := sha256.Sum256(red)
				pk = append([]byte{0x00, 0x20}, wp[:]...)
			}
			amt := amountOf(o.Amt, p.Amount)
			m.AddTxOut(wire.NewTxOut(int64(amt), pk))
			tx.Outs = append(tx.Outs, SimOut{Amount: amt, Script: hex.EncodeToString(pk)})
		}
		var buf bytes.Buffer
		if err := m.Serialize(&buf); err != nil {
			return nil, err
		}
		tx.Hex = hex.EncodeToString(buf.Bytes())
		tx.ID = m.TxHash().String()
		return tx, nil
	}
	for _, o := range outs {
		q, csv := variantParams(p, o.Script)
		sc := simScript(q, csv)
		if o.Script == "p2wpkh" {
			sc = "P|" + randHex(20)
		}
		bl := o.Blind
		if bl == "" {
			bl = "ok"
		}
		as := o.Asset
		if as == "" {
			as = "policy"
		}
		blk := blindKeyHex
		if bl == "wrongkey" {
			blk = randHex(32)
		} else if bl == "explicit" {
			blk = ""
		}
		tx.Outs = append(tx.Outs, SimOut{Amount: amountOf(o.Amt, p.Amount), Script: sc, Asset: as, Blind: blk})
	}
	body, _ := json.Marshal(struct {
		Outs  []SimOut `json:"outs"`
		Nonce string   `json:"nonce"`
	}{tx.Outs, randHex(8)})
	tx.Hex = hex.EncodeToString(body)
	h := sha256.Sum256(body)
	tx.ID = hex.EncodeToString(h[:])
	return tx, nil
}

func mustHex(s string) []byte { b, _ := hex.DecodeString(s); return b }

func parseSimLiquidTx(txHex string) ([]SimOut, error) {
	b, err := hex.DecodeString(txHex)
	if err != nil {
		return nil, err
	}
	var body struct {
		Outs []SimOut `json:"outs"`
	}
	if err := json.Unmarshal(b, &body); err != nil {
		return nil, err
	}
	return body.Outs, nil
}

// ---- validator ------------------------------------------------------------

// simValidator: Bitcoin delegates to the REAL onchain.BitcoinOnChain; Liquid is a
// specification-level validator over simulated confidential transactions (the real
// Liquid validator is exercised by the `tx` engine).
type simValidator struct {
	w     *World
	n     *Node
	chain string
}

func (v *simValidator) TxIdFromHex(txHex string) (string, error) {
	if v.chain == "btc" {
		return RealBitcoin.TxIdFromHex(txHex)
	}
	b, err := hex.DecodeString(txHex)
	if err != nil {
		return "", err
	}
	h := sha256.Sum256(b)
	return hex.EncodeToString(h[:]), nil
}

func (v *simValidator) GetCSVHeight() uint32 {
	if v.chain == "btc" {
		return RealBitcoin.GetCSVHeight()
	}
	return onchain.LiquidCsv
}

func (v *simValidator) ValidateTx(p *swap.OpeningParams, txHex string) (bool, error) {
	if o := v.w.gate(v.n, "validate"); o != "" {
		return false, errors.New("sim: validator error")
	}
	var ok bool
	var err error
	if v.chain == "btc" {
		ok, err = RealBitcoin.ValidateTx(p, txHex)
	} else {
		ok, err = liquidSpecValidate(p, txHex)
	}
	v.w.Emit("validate", Ev{"sid": v.w.Peer.labelByPub(p), "chain": v.chain, "ok": ok && err == nil, "amount": u64(p.Amount), "csv": p.CSV, "hash": p.ClaimPaymentHash,
		"taker": p.TakerPubkey, "maker": p.MakerPubkey})
	return ok, err
}

func liquidSpecValidate(p *swap.OpeningParams, txHex string) (bool, error) {
	outs, err := parseSimLiquidTx(txHex)
	if err != nil {
		return false, err
	}
	want := simScript(p, p.CSV)
	bk := ""
	if p.BlindingKey != nil {
		bk = hex.EncodeToString(p.BlindingKey.Serialize())
	}
	for _, o := range outs {
		if o.Script == want {
			if o.Amount == p.Amount && o.Asset == "policy" && o.Blind != "" && o.Blind == bk {
				return true, nil
			}
			return false, errors.New("sim: opening output does not match")
		}
	}
	return false, errors.New("sim: opening output not found")
}

// ---- wallet ---------------------------------------------------------------

type simWallet struct {
	w     *World
	n     *Node
	chain string
}

func (s *simWallet) c() *SimChain { return s.w.Chain[s.chain] }

func (s *simWallet) SetLabel(txID, address, label string) error {
	if o := s.w.gate(s.n, "wallet.label"); o != "" {
		return errors.New("sim: label failed")
	}
	return nil
}

func (s *simWallet) outScript(p *swap.OpeningParams) (string, error) {
	if s.chain == "btc" {
		b, err := RealBitcoin.GetOutputScript(p)
		return hex.EncodeToString(b), err
	}
	return simScript(p, p.CSV), nil
}

func (s *simWallet) GetOutputScript(p *swap.OpeningParams) ([]byte, error) {
	sc, err := s.outScript(p)
	return []byte(sc), err
}

// CreateOpeningTransaction funds and BROADCASTS the opening transaction.
func (s *simWallet) CreateOpeningTransaction(p *swap.OpeningParams) (string, string, string, uint64, uint32, error) {
	if o := s.w.gate(s.n, "wallet.open"); o != "" {
		return "", "", "", 0, 0, errors.New("sim: funding failed")
	}
	vout := s.w.Cfg.SwapVout
	outs := []OutSpec{}
	for i := 0; i < vout; i++ {
		outs = append(outs, OutSpec{Amt: "other", Script: "p2wpkh", Asset: "policy", Blind: "ok"})
	}
	outs = append(outs, OutSpec{Amt: "exact", Script: "good", Asset: "policy", Blind: "ok"})
	if vout == 0 {
		outs = append(outs, OutSpec{Amt: "other", Script: "p2wpkh", Asset: "policy", Blind: "ok"})
	}
	bk := ""
	if p.BlindingKey != nil {
		bk = hex.EncodeToString(p.BlindingKey.Serialize())
	}
	tx, err := BuildOpening(s.chain, p, outs, bk)
	if err != nil {
		return "", "", "", 0, 0, err
	}
	tx.Owner = "me"
	s.c().AddTx(tx)
	s.w.Emit("wallet.open", Ev{"sid": s.w.Peer.labelByPub(p), "chain": s.chain, "tx": tx.ID, "vout": vout, "amount": u64(p.Amount), "csv": p.CSV, "hash": p.ClaimPaymentHash,
		"taker": p.TakerPubkey, "maker": p.MakerPubkey, "blind": bk != ""})
	s.w.after(s.n, "wallet.open")
	return tx.Hex, "addr-opening", tx.ID, s.w.Cfg.OpenFeeSat, uint32(vout), nil
}

func (s *simWallet) findSwapOut(p *swap.OpeningParams, openingHex string) (*SimTx, int, error) {
	var id string
	var err error
	v := &simValidator{w: s.w, chain: s.chain}
	if id, err = v.TxIdFromHex(openingHex); err != nil {
		return nil, 0, err
	}
	tx := s.c().Get(id)
	if tx == nil {
		return nil, 0, errors.New("sim: opening transaction unknown to the chain")
	}
	want, err := s.outScript(p)
	if err != nil {
		return nil, 0, err
	}
	for i, o := range tx.Outs {
		if o.Script == want && o.Amount == p.Amount {
			return tx, i, nil
		}
	}
	return nil, 0, errors.New("sim: swap output not found in opening transaction")
}

func (s *simWallet) spend(kind string, p *swap.OpeningParams, cp *swap.ClaimParams, check func(tx *SimTx, vout int) error) (string, string, string, error) {
	gate := "wallet.spend." + kind
	if o := s.w.gate(s.n, gate); o != "" {
		return "", "", "", errors.New("sim: broadcast failed")
	}
	tx, vout, err := s.findSwapOut(p, cp.OpeningTxHex)
	if err == nil {
		err = check(tx, vout)
	}
	if err == nil && tx.Outs[vout].SpentBy != "" {
		err = errors.New("sim: txn-mempool-conflict (output already spent)")
	}
	if err != nil {
		s.w.Emit("wallet.spend", Ev{"sid": s.w.Peer.labelByPub(p), "chain": s.chain, "kind": kind, "ok": false, "err": clip(err.Error(), 80)})
		return "", "", "", err
	}
	sp := &SimTx{ID: randHex(32), Hex: "", Kind: kind, Owner: "me", Spends: fmt.Sprintf("%s:%d", tx.ID, vout),
		Outs: []SimOut{{Amount: tx.Outs[vout].Amount - 300, Script: "wallet-me"}}}
	s.c().mu.Lock()
	tx.Outs[vout].SpentBy = sp.ID
	s.c().mu.Unlock()
	s.c().AddTx(sp)
	s.w.Emit("wallet.spend", Ev{"sid": s.w.Peer.labelByPub(p), "chain": s.chain, "kind": kind, "ok": true, "tx": sp.ID, "spends": tx.ID, "vout": vout,
		"depth": s.c().depth(tx.ID, uint32(vout), false)})
	s.w.after(s.n, gate)
	return sp.ID, "", "addr-me", nil
}

func signerPub(sg swap.Signer) string {
	// Secp256k1Signer has an unexported key: recover the pubkey from a signature over a fixed digest.
	if sg == nil {
		return ""
	}
	d := sha256.Sum256([]byte("verif"))
	sig, err := sg.Sign(d[:])
	if err != nil {
		return ""
	}
	return hex.EncodeToString(sig.Serialize())
}

func verifySigner(sg swap.Signer, pubHex string) bool {
	if sg == nil {
		return false
	}
	d := sha256.Sum256([]byte("verif-signer-check"))
	sig, err := sg.Sign(d[:])
	if err != nil || sig == nil {
		return false
	}
	pkb, err := hex.DecodeString(pubHex)
	if err != nil {
		return false
	}
	pk, err := btcec.ParsePubKey(pkb)
	if err != nil {
		return false
	}
	return sig.Verify(d[:], pk)
}

func (s *simWallet) CreatePreimageSpendingTransaction(p *swap.OpeningParams, cp *swap.ClaimParams) (string, string, string, error) {
	return s.spend("preimage", p, cp, func(tx *SimTx, vout int) error {
		if hashOf(cp.Preimage) != p.ClaimPaymentHash {
			return errors.New("sim: preimage does not match the hash in the script")
		}
		if !verifySigner(cp.Signer, p.TakerPubkey) {
			return errors.New("sim: signature does not match the taker key")
		}
		return nil
	})
}

func (s *simWallet) CreateCsvSpendingTransaction(p *swap.OpeningParams, cp *swap.ClaimParams) (string, string, string, error) {
	return s.spend("csv", p, cp, func(tx *SimTx, vout int) error {
		if !verifySigner(cp.Signer, p.MakerPubkey) {
			return errors.New("sim: signature does not match the maker key")
		}
		if d := s.c().depth(tx.ID, uint32(vout), false); d < p.CSV {
			return fmt.Errorf("sim: non-BIP68-final (depth %d < csv %d)", d, p.CSV)
		}
		return nil
	})
}

func (s *simWallet) CreateCoopSpendingTransaction(p *swap.OpeningParams, cp *swap.ClaimParams, taker swap.Signer) (string, string, string, error) {
	return s.spend("coop", p, cp, func(tx *SimTx, vout int) error {
		if !verifySigner(cp.Signer, p.MakerPubkey) {
			return errors.New("sim: signature does not match the maker key")
		}
		if !verifySigner(taker, p.TakerPubkey) {
			return errors.New("sim: taker signature invalid")
		}
		return nil
	})
}

func (s *simWallet) NewAddress() (string, error) { return "addr-me", nil }
func (s *simWallet) GetRefundFee() (uint64, error) { return 300, nil }
func (s *simWallet) GetFlatOpeningTXFee() (uint64, error) {
	if o := s.w.gate(s.n, "wallet.fee"); o != "" {
		return 0, errors.New("sim: fee estimation failed")
	}
	return s.w.Cfg.OpenFeeSat, nil
}
func (s *simWallet) GetAsset() string {
	if s.chain == "lbtc" {
		return LiquidAsset
	}
	return ""
}
func (s *simWallet) GetNetwork() string {
	if s.chain == "btc" {
		return BtcNetwork
	}
	return ""
}
func (s *simWallet) GetOnchainBalance() (uint64, error) {
	if o := s.w.gate(s.n, "wallet.balance"); o != "" {
		return 0, errors.New("sim: balance failed")
	}
	return s.w.Cfg.WalletSat, nil
}
