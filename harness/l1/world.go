// Package l1 runs the REAL swap.SwapService (real FSM engine, real state tables,
// real actions, real bbolt store, real policy file, real premium settings, real
// retransmission manager, real Bitcoin validator) inside a simulated
// environment: chain, Lightning node, wallet, peer messenger, timers, crashes.
// Every linearization point is recorded as one NDJSON trace event.
package l1

import (
	"crypto/sha256"
	"encoding/hex"
	"fmt"
	"runtime"
	"sort"
	"strings"
	"sync"
	"time"

	"verif/harness/ndj"
)

const (
	// valid secp256k1 points (the policy code parses pubkeys): G, 2G, 3G
	Me    = "0279be667ef9dcbbac55a06295ce870b07029bfcdb2dce28d959f2815b16f81798"
	Peer  = "02c6047f9441ed7d6d3045406e95c07cd85c778e4b8cef3ca7abac09b95c709ee5"
	Third = "02f9308a019258c31049344f85f89d5229b531c845836f99b08601f113bce036f9"

	LiquidAsset = "5ac9f65c0efcc4775e0baec4ec03abdde22473cd3cf33c0419ca290e0751b225aa" // 33 bytes hex
	BtcNetwork  = "regtest"
)

func PeerName(pk string) string {
	switch pk {
	case Me:
		return "me"
	case Peer:
		return "peer"
	case Third:
		return "third"
	}
	return "unknown"
}

func PeerKey(name string) string {
	switch name {
	case "me":
		return Me
	case "peer":
		return Peer
	case "third":
		return Third
	}
	return name
}

// Ev is one trace event.
type Ev map[string]any

// World is one simulated node-under-test plus its environment.
type World struct {
	mu    sync.Mutex
	T     int // trace number
	seq   int
	out   *ndj.Writer
	Dir   string
	Cfg   Config
	Chain map[string]*SimChain // "btc", "lbtc"
	LN    *SimLN
	Peer  *PeerSim
	Now   int64 // logical minutes

	Node  *Node // current process (nil when down)
	Epoch int

	// fault plan of the current step
	faults   map[string][]string
	gateOcc  map[string]int
	crashAt  *CrashSpec
	queue    []func()
	stepName string
	crashCh  chan struct{}
	onlyDue  bool

	Stats map[string]int
}

type CrashSpec struct {
	Gate string `json:"gate"`
	Occ  int    `json:"occ"`
	When string `json:"when"` // "before" | "after"
}

// Config is the per-trace configuration (policy, premium, balances).
type Config struct {
	Chain         string `json:"chain"`          // chain of the main swap
	AllowNew      bool   `json:"allow_new"`      // policy allow_new_swaps
	AcceptAll     bool   `json:"accept_all"`     // policy accept_all_peers
	AllowPeer     bool   `json:"allow_peer"`     // peer on allowlist
	SuspectPeer   bool   `json:"suspect_peer"`   // peer on suspicious list
	MinSwapMsat   uint64 `json:"min_swap_msat"`  // policy min swap amount
	BtcEnabled    bool   `json:"btc_enabled"`
	LbtcEnabled   bool   `json:"lbtc_enabled"`
	RatePPM       int64  `json:"rate_ppm"`       // premium rate for all (asset, op); peer-specific if PeerRate
	PeerRatePPM   *int64 `json:"peer_rate_ppm"`  // optional peer specific rate
	WalletSat     uint64 `json:"wallet_sat"`     // on-chain balance
	OpenFeeSat    uint64 `json:"open_fee_sat"`   // flat opening fee estimate
	SpendableMsat uint64 `json:"spendable_msat"` // channel outbound
	ReceivableMsat uint64 `json:"receivable_msat"`
	DupPay        string `json:"dup_pay"`        // "cln" (returns completed payment) | "lnd" (error already paid)
	SwapVout      int    `json:"swap_vout"`      // index of the swap output in own opening txs (0..2)
	Retransmit    bool   `json:"retransmit"`     // real-time retransmission ticks (C22 runs only)
}

func DefaultConfig() Config {
	return Config{Chain: "btc", AllowNew: true, AcceptAll: true, MinSwapMsat: 100000000, BtcEnabled: true, LbtcEnabled: true,
		RatePPM: 10000, WalletSat: 100000000, OpenFeeSat: 1000, SpendableMsat: 2000000000, ReceivableMsat: 2000000000, DupPay: "cln"}
}

func NewWorld(t int, dir string, cfg Config, out *ndj.Writer) *World {
	w := &World{T: t, Dir: dir, Cfg: cfg, out: out, Stats: map[string]int{}}
	w.Chain = map[string]*SimChain{
		"btc":  newSimChain(w, "btc", 1000),
		"lbtc": newSimChain(w, "lbtc", 5000),
	}
	w.LN = newSimLN(w)
	w.Peer = newPeerSim(w)
	return w
}

// Emit writes one trace event (sequence-numbered under the world lock).
func (w *World) Emit(ev string, f Ev) {
	w.mu.Lock()
	w.seq++
	if f == nil {
		f = Ev{}
	}
	if id, ok := f["id"].(string); ok {
		f["sid"] = w.Peer.Label(id)
		delete(f, "id")
	}
	f["t"] = w.T
	f["seq"] = w.seq
	f["ev"] = ev
	w.out.Write(f)
	w.Stats[ev]++
	w.mu.Unlock()
}

type crashSignal struct{}

// gate is called by every simulated service call BEFORE its effect. It returns
// the planned outcome ("" = succeed) and crashes the node if the plan says so.
func (w *World) gate(n *Node, name string) string {
	if n != nil && n.dead() {
		park()
	}
	w.mu.Lock()
	w.gateOcc[name]++
	occ := w.gateOcc[name]
	var outcome string
	if pl, ok := w.faults[name]; ok && len(pl) > 0 {
		if occ <= len(pl) {
			outcome = pl[occ-1]
		} else if last := pl[len(pl)-1]; strings.HasSuffix(last, "*") {
			outcome = last
		}
		outcome = strings.TrimSuffix(outcome, "*")
		if outcome == "ok" {
			outcome = ""
		}
	}
	cr := w.crashAt
	w.mu.Unlock()
	if cr != nil && cr.Gate == name && cr.Occ == occ && cr.When != "after" {
		w.crash(n, name, "before")
	}
	return outcome
}

// after is called by a simulated service call AFTER its effect took place.
func (w *World) after(n *Node, name string) {
	w.mu.Lock()
	occ := w.gateOcc[name]
	cr := w.crashAt
	w.mu.Unlock()
	if cr != nil && cr.Gate == name && cr.Occ == occ && cr.When == "after" {
		w.crash(n, name, "after")
	}
}

// park: the goroutine of a crashed process never runs again (no deferred
// function runs, exactly as in a real crash); it is simply left blocked.
func park() { select {} }

func (w *World) crash(n *Node, gate, when string) {
	if n == nil || n.dead() {
		park()
	}
	w.Emit("crash", Ev{"gate": gate, "when": when})
	n.kill()
	w.mu.Lock()
	w.crashAt = nil
	ch := w.crashCh
	w.mu.Unlock()
	if ch != nil {
		select {
		case ch <- struct{}{}:
		default:
		}
	}
	park()
}

// post queues a callback (watcher / payment notification) to run after the
// current handler returned: the simulated services never call back into the
// FSM synchronously.
func (w *World) post(f func()) {
	w.mu.Lock()
	w.queue = append(w.queue, f)
	w.mu.Unlock()
}

// runIsolated runs f in its own goroutine so that a crash (Goexit) or a panic
// inside the real code ends only that goroutine. Returns "", "crash" or "panic: ...".
func (w *World) runIsolated(f func()) (res string) {
	done := make(chan string, 1)
	n := w.Node
	crashed := make(chan struct{}, 1)
	w.mu.Lock()
	w.crashCh = crashed
	w.mu.Unlock()
	go func() {
		finished := false
		defer func() {
			if r := recover(); r != nil {
				buf := make([]byte, 4096)
				buf = buf[:runtime.Stack(buf, false)]
				done <- fmt.Sprintf("panic: %v | %s", r, firstFrames(string(buf)))
				return
			}
			if !finished {
				done <- "crash"
				return
			}
			done <- ""
		}()
		f()
		finished = true
	}()
	select {
	case r := <-done:
		if r == "crash" && n != nil && !n.dead() {
			return "goexit"
		}
		return r
	case <-crashed:
		return "crash"
	case <-time.After(20 * time.Second):
		if n != nil && n.dead() {
			return "crash"
		}
		return "hang"
	}
}

func firstFrames(s string) string {
	lines := strings.Split(s, "\n")
	var keep []string
	for _, l := range lines {
		if strings.Contains(l, "peerswap/") && !strings.HasPrefix(strings.TrimSpace(l), "/") {
			keep = append(keep, strings.TrimSpace(l))
		}
		if len(keep) >= 3 {
			break
		}
	}
	return strings.Join(keep, " < ")
}

// drain runs queued callbacks until none is left.
func (w *World) drain() {
	for i := 0; i < 1000; i++ {
		w.mu.Lock()
		if len(w.queue) == 0 {
			w.mu.Unlock()
			return
		}
		f := w.queue[0]
		w.queue = w.queue[1:]
		w.mu.Unlock()
		if w.Node == nil || w.Node.dead() {
			continue
		}
		r := w.runIsolated(f)
		if strings.HasPrefix(r, "panic") || r == "hang" {
			w.Emit("fault", Ev{"what": r, "in": "callback"})
		}
	}
}

func sha(b []byte) string {
	h := sha256.Sum256(b)
	return hex.EncodeToString(h[:8])
}

func sortedKeys[M ~map[string]V, V any](m M) []string {
	ks := make([]string, 0, len(m))
	for k := range m {
		ks = append(ks, k)
	}
	sort.Strings(ks)
	return ks
}
