package l1

import (
	"context"
	"encoding/hex"
	"encoding/json"
	"fmt"
	"os"
	"path/filepath"
	"sort"
	"strings"
	"sync"
	"sync/atomic"
	"time"

	"github.com/elementsproject/peerswap/messages"
	"github.com/elementsproject/peerswap/policy"
	"github.com/elementsproject/peerswap/premium"
	"github.com/elementsproject/peerswap/swap"
	"github.com/elementsproject/peerswap/version"
	"go.etcd.io/bbolt"
)

// Node is one run of the peerswap process (from start to crash/stop).
type Node struct {
	w       *World
	epoch   int
	deadF   atomic.Bool
	svc     *swap.SwapService
	ln      *lnFacade
	msgr    *simMessenger
	mgr     *logManager
	watcher map[string]*simWatcher
	pol     *policy.Policy
	tmu     sync.Mutex
	timers  []*timerEntry
	recovered bool // RecoverSwaps ran in this process (the first process of a trace has nothing to recover)
}

type timerEntry struct {
	ctx context.Context
	due int64
	id  string
}

func (n *Node) dead() bool { return n == nil || n.deadF.Load() }

func (n *Node) kill() {
	n.deadF.Store(true)
	n.mgr.stopAll()
}

// ---- persistent resources of the world -----------------------------------

type disk struct {
	db        *bbolt.DB
	premiumDB *bbolt.DB
	policyPath string
}

var worldDisk = map[*World]*disk{}
var worldDiskMu sync.Mutex

func (w *World) disk() *disk {
	worldDiskMu.Lock()
	defer worldDiskMu.Unlock()
	return worldDisk[w]
}

// Open creates the node's persistent files (bbolt stores, policy file).
func (w *World) Open(storedVersion string) error {
	os.MkdirAll(w.Dir, 0o755)
	db, err := bbolt.Open(filepath.Join(w.Dir, "swaps.db"), 0o644, &bbolt.Options{NoSync: true, NoFreelistSync: true})
	if err != nil {
		return err
	}
	pdb, err := bbolt.Open(filepath.Join(w.Dir, "premium.db"), 0o644, &bbolt.Options{NoSync: true, NoFreelistSync: true})
	if err != nil {
		return err
	}
	d := &disk{db: db, premiumDB: pdb, policyPath: filepath.Join(w.Dir, "policy.conf")}
	var pl []string
	pl = append(pl, fmt.Sprintf("allow_new_swaps=%t", w.Cfg.AllowNew))
	pl = append(pl, fmt.Sprintf("accept_all_peers=%t", w.Cfg.AcceptAll))
	pl = append(pl, fmt.Sprintf("min_swap_amount_msat=%d", w.Cfg.MinSwapMsat))
	if w.Cfg.AllowPeer {
		pl = append(pl, "allowlisted_peers="+Peer)
	}
	if w.Cfg.SuspectPeer {
		pl = append(pl, "suspicious_peers="+Peer)
	}
	if err := os.WriteFile(d.policyPath, []byte(strings.Join(pl, "\n")+"\n"), 0o644); err != nil {
		return err
	}
	ps, err := premium.NewSetting(pdb)
	if err != nil {
		return err
	}
	ctx := context.Background()
	for _, a := range []premium.AssetType{premium.BTC, premium.LBTC} {
		for _, o := range []premium.OperationType{premium.SwapIn, premium.SwapOut} {
			r, _ := premium.NewPremiumRate(a, o, premium.NewPPM(w.Cfg.RatePPM))
			if err := ps.SetDefaultRate(ctx, r); err != nil {
				return err
			}
			if w.Cfg.PeerRatePPM != nil {
				pr, _ := premium.NewPremiumRate(a, o, premium.NewPPM(*w.Cfg.PeerRatePPM))
				if err := ps.SetRate(ctx, Peer, pr); err != nil {
					return err
				}
			}
		}
	}
	if storedVersion != "none" {
		vs, err := version.NewVersionService(db)
		if err != nil {
			return err
		}
		if storedVersion == "" || storedVersion == "current" {
			if err := vs.SafeUpgrade(noSwaps{}); err != nil {
				return err
			}
		} else {
			if err := VerifSetStoredVersion(db, storedVersion); err != nil {
				return err
			}
		}
	}
	worldDiskMu.Lock()
	worldDisk[w] = d
	worldDiskMu.Unlock()
	return nil
}

type noSwaps struct{}

func (noSwaps) HasActiveSwaps() (bool, error) { return false, nil }

// VerifSetStoredVersion writes an arbitrary version string into the version bucket.
func VerifSetStoredVersion(db *bbolt.DB, v string) error {
	return db.Update(func(tx *bbolt.Tx) error {
		b, err := tx.CreateBucketIfNotExists([]byte("version"))
		if err != nil {
			return err
		}
		return b.Put([]byte("version"), []byte(v))
	})
}

func (w *World) Close() {
	if w.Node != nil {
		w.Node.kill()
	}
	d := w.disk()
	if d != nil {
		d.db.Close()
		d.premiumDB.Close()
	}
	worldDiskMu.Lock()
	delete(worldDisk, w)
	worldDiskMu.Unlock()
	os.RemoveAll(w.Dir)
}

// ---- store wrapper ----------------------------------------------------------

type logStore struct {
	w    *World
	n    *Node
	real swap.Store
}

func (s *logStore) UpdateData(sm *swap.SwapStateMachine) error {
	if o := s.w.gate(s.n, "persist"); o != "" {
		return fmt.Errorf("sim: disk write failed")
	}
	if err := s.real.UpdateData(sm); err != nil {
		return err
	}
	s.w.Emit("persist", s.w.project(sm))
	s.w.after(s.n, "persist")
	return nil
}
// optional capabilities of the real store are forwarded (e.g. the channel lookup used by lockSwap)
func (s *logStore) UnfinishedSwapOnChannel(channelId, exceptId string) (string, error) {
	if cs, ok := s.real.(interface {
		UnfinishedSwapOnChannel(channelId, exceptId string) (string, error)
	}); ok {
		return cs.UnfinishedSwapOnChannel(channelId, exceptId)
	}
	return "", nil
}
func (s *logStore) GetData(id string) (*swap.SwapStateMachine, error) { return s.real.GetData(id) }
func (s *logStore) ListAll() ([]*swap.SwapStateMachine, error)        { return s.real.ListAll() }
func (s *logStore) ListAllByPeer(p string) ([]*swap.SwapStateMachine, error) {
	return s.real.ListAllByPeer(p)
}

func roleName(sm *swap.SwapStateMachine) string {
	t := map[swap.SwapType]string{swap.SWAPTYPE_IN: "in", swap.SWAPTYPE_OUT: "out"}[sm.Type]
	r := map[swap.SwapRole]string{swap.SWAPROLE_SENDER: "sender", swap.SWAPROLE_RECEIVER: "receiver"}[sm.Role]
	return t + "_" + r
}

// project is the projection function: real record -> abstract record of PeerSwap.tla.
func (w *World) project(sm *swap.SwapStateMachine) Ev {
	d := sm.Data
	id := sm.SwapId.String()
	label := w.Peer.ensure(id).Label
	js, _ := json.Marshal(sm)
	role := roleName(sm)
	ev := Ev{"sid": label, "role": role, "prev": string(sm.Previous), "cur": string(sm.Current), "digest": sha(js)}
	if d == nil {
		return ev
	}
	taker := role == "out_sender" || role == "in_receiver"
	if taker {
		w.Peer.noteSecret(hex.EncodeToString(d.PrivkeyBytes), "takerkey", label)
	} else {
		w.Peer.noteSecret(hex.EncodeToString(d.PrivkeyBytes), "makerkey", label)
		w.Peer.noteSecret(d.ClaimPreimage, "preimage", label)
	}
	ev["peer"] = PeerName(d.PeerNodeId)
	ev["scid"] = d.GetScid()
	ev["chain"] = d.GetChain()
	ev["ver"] = int(d.GetProtocolVersion())
	ev["amount"] = u64(d.GetAmount())
	ev["has_req"] = d.SwapInRequest != nil || d.SwapOutRequest != nil
	ev["has_agr"] = d.SwapInAgreement != nil || d.SwapOutAgreement != nil
	ev["both_types"] = (d.SwapInRequest != nil || d.SwapInAgreement != nil) && (d.SwapOutRequest != nil || d.SwapOutAgreement != nil)
	ev["premium"] = clampI64(d.GetPremium())
	lim := int64(0)
	if d.SwapInRequest != nil {
		lim = d.SwapInRequest.PremiumLimit
	} else if d.SwapOutRequest != nil {
		lim = d.SwapOutRequest.PremiumLimit
	}
	ev["limit"] = clampI64(lim)
	ev["start"] = d.StartingBlockHeight
	ev["start_set"] = d.StartingBlockHeightSet
	ev["otb"] = d.OpeningTxBroadcasted != nil
	if d.OpeningTxBroadcasted != nil {
		ev["otb_tx"] = d.OpeningTxBroadcasted.TxId
		ev["otb_vout"] = d.OpeningTxBroadcasted.ScriptOut
		if inv, err := parsePayreq(d.OpeningTxBroadcasted.Payreq); err == nil {
			ev["otb_hash"] = inv.Hash
		}
	}
	ev["txhex"] = d.OpeningTxHex != ""
	ev["preimage"] = d.ClaimPreimage != ""
	ev["claim_tx"] = d.ClaimTxId != ""
	ev["coop"] = d.CoopClose != nil
	ev["cancel_obj"] = d.Cancel != nil
	ev["next_type"] = d.NextMessageType
	ev["key"] = sha(d.PrivkeyBytes)
	ev["fsm_state"] = string(d.FSMState)
	return ev
}

func (p *PeerSim) ensure(id string) *SwapCtx {
	c := p.newCtx(id)
	return c
}

// ---- retransmission manager wrapper -----------------------------------------

type logManager struct {
	w    *World
	n    *Node
	real *messages.Manager
	mu   sync.Mutex
	ids  map[string]bool
}

func (m *logManager) AddSender(id string, ms messages.StoppableMessenger) error {
	if o := m.w.gate(m.n, "sender.add"); o != "" {
		return fmt.Errorf("sim: cannot add sender")
	}
	err := m.real.AddSender(id, ms)
	m.mu.Lock()
	if err == nil {
		m.ids[id] = true
	}
	m.mu.Unlock()
	m.w.Emit("sender.add", Ev{"sid": m.w.Peer.Label(id), "ok": err == nil})
	return err
}

func (m *logManager) RemoveSender(id string) {
	m.w.gate(m.n, "sender.remove")
	m.real.RemoveSender(id)
	m.mu.Lock()
	had := m.ids[id]
	delete(m.ids, id)
	m.mu.Unlock()
	if had {
		m.w.Emit("sender.remove", Ev{"sid": m.w.Peer.Label(id)})
	}
}

func (m *logManager) stopAll() {
	m.mu.Lock()
	ids := sortedKeys(m.ids)
	m.ids = map[string]bool{}
	m.mu.Unlock()
	for _, id := range ids {
		m.real.RemoveSender(id)
	}
}

func (m *logManager) live() []string {
	m.mu.Lock()
	defer m.mu.Unlock()
	out := []string{}
	for id := range m.ids {
		out = append(out, m.w.Peer.Label(id))
	}
	sort.Strings(out)
	return out
}

// ---- start / restart ----------------------------------------------------------

// StartNode starts a peerswap process on the world's persistent files.
func (w *World) StartNode(recoverSwaps bool) string {
	d := w.disk()
	w.Epoch++
	n := &Node{w: w, epoch: w.Epoch, watcher: map[string]*simWatcher{}}
	n.ln = &lnFacade{l: w.LN, n: n}
	n.msgr = &simMessenger{w: w, n: n}
	n.mgr = &logManager{w: w, n: n, real: messages.NewManager(), ids: map[string]bool{}}
	pol, err := policy.CreateFromFile(d.policyPath)
	if err != nil {
		return "policy: " + err.Error()
	}
	n.pol = pol
	real, err := swap.NewBboltStore(d.db)
	if err != nil {
		return err.Error()
	}
	rs, err := swap.NewRequestedSwapsStore(d.db)
	if err != nil {
		return err.Error()
	}
	ps, err := premium.NewSetting(d.premiumDB)
	if err != nil {
		return err.Error()
	}
	store := &logStore{w: w, n: n, real: real}
	mk := func(chain string) (*simWallet, *simValidator, *simWatcher) {
		wt := &simWatcher{c: w.Chain[chain], n: n}
		n.watcher[chain] = wt
		return &simWallet{w: w, n: n, chain: chain}, &simValidator{w: w, n: n, chain: chain}, wt
	}
	bw, bv, bt := mk("btc")
	lw, lv, lt := mk("lbtc")
	services := swap.NewSwapServices(store, rs, n.ln, n.msgr, n.mgr, pol, w.Cfg.BtcEnabled, bw, bv, bt, w.Cfg.LbtcEnabled, lw, lv, lt, ps)
	n.svc = swap.NewSwapService(services)
	w.Node = n
	w.Emit("start", Ev{"epoch": n.epoch, "recover": recoverSwaps})
	if err := n.svc.Start(); err != nil {
		return err.Error()
	}
	n.svc.VerifSetTimeoutService(func(ctx context.Context, dur time.Duration, id string) {
		n.tmu.Lock()
		n.timers = append(n.timers, &timerEntry{ctx: ctx, due: w.Now + int64(dur/time.Minute), id: id})
		n.tmu.Unlock()
		w.Emit("timer.arm", Ev{"sid": w.Peer.Label(id), "due": w.Now + int64(dur/time.Minute), "now": w.Now})
	})
	if recoverSwaps {
		return w.RecoverNode()
	}
	return ""
}

// RecoverNode is what the daemon does after Start(): SafeUpgrade, then RecoverSwaps.
func (w *World) RecoverNode() string {
	d := w.disk()
	n := w.Node
	n.recovered = true
	real, err := swap.NewBboltStore(d.db)
	if err != nil {
		return err.Error()
	}
	{
		vs, err := version.NewVersionService(d.db)
		if err != nil {
			return err.Error()
		}
		before := storedVersion(d.db)
		uerr := vs.SafeUpgrade(n.svc)
		w.Emit("upgrade", Ev{"ok": uerr == nil, "before": before, "after": storedVersion(d.db), "current": version.GetCurrentVersion()})
		if uerr != nil {
			n.kill()
			w.Emit("stop", Ev{"why": "upgrade refused"})
			return "upgrade refused"
		}
		// what the node reloads from disk (C14): digest per record as read back
		if all, err := real.ListAll(); err == nil {
			for _, sm := range all {
				js, _ := json.Marshal(sm)
				w.Emit("reload", Ev{"sid": w.Peer.ensure(sm.SwapId.String()).Label, "digest": sha(js), "cur": string(sm.Current), "finished": sm.IsFinished()})
			}
		}
		r := w.runIsolated(func() { n.svc.RecoverSwaps() })
		w.Emit("recovered", Ev{"res": r})
		w.drain()
	}
	return ""
}

func storedVersion(db *bbolt.DB) string {
	v := "none"
	db.View(func(tx *bbolt.Tx) error {
		b := tx.Bucket([]byte("version"))
		if b == nil {
			return nil
		}
		if x := b.Get([]byte("version")); x != nil {
			v = string(x)
		}
		return nil
	})
	return v
}

// StopNode stops the process without a crash mid-handler (SIGTERM between events).
func (w *World) StopNode() {
	if w.Node != nil && !w.Node.dead() {
		w.Node.kill()
		w.Emit("stop", Ev{"why": "shutdown"})
	}
}

// FireTimers advances the logical clock to each armed timer and runs its callback.
func (w *World) FireTimers() int {
	n := w.Node
	if n.dead() {
		return 0
	}
	fired := 0
	for {
		n.tmu.Lock()
		if len(n.timers) == 0 {
			n.tmu.Unlock()
			return fired
		}
		sort.SliceStable(n.timers, func(i, j int) bool { return n.timers[i].due < n.timers[j].due })
		t := n.timers[0]
		if w.onlyDue && t.due > w.Now {
			n.tmu.Unlock()
			return fired
		}
		n.timers = n.timers[1:]
		n.tmu.Unlock()
		if t.ctx.Err() != nil {
			continue
		}
		if t.due > w.Now {
			w.Now = t.due
		}
		w.Emit("timer.fire", Ev{"sid": w.Peer.Label(t.id), "now": w.Now})
		r := w.runIsolated(n.svc.VerifTimeoutCallback(t.id))
		if strings.HasPrefix(r, "panic") || r == "hang" {
			w.Emit("fault", Ev{"what": r, "in": "timer"})
		}
		fired++
		w.drain()
		if n.dead() {
			return fired
		}
	}
}

// Quiesce records the registry / disk / policy snapshot after a step.
func (w *World) Quiesce() {
	ev := Ev{"now": w.Now, "up": w.Node != nil && !w.Node.dead()}
	act := []Ev{}
	if w.Node != nil && !w.Node.dead() {
		snap := w.Node.svc.VerifSnapshot()
		for _, id := range sortedKeys(snap) {
			v := snap[id]
			act = append(act, Ev{"sid": w.Peer.ensure(id).Label, "scid": v.Scid, "nscid": nscid(v.Scid), "cur": v.Current, "peer": PeerName(v.Peer), "digest": sha(v.Json)})
		}
		ev["senders"] = w.Node.mgr.live()
		ev["timers"] = w.Node.liveTimers()
	} else {
		ev["senders"] = []string{}
		ev["timers"] = []string{}
	}
	ev["active"] = act
	dsk := []Ev{}
	if d := w.disk(); d != nil {
		if st, err := swap.NewBboltStore(d.db); err == nil {
			if all, err := st.ListAll(); err == nil {
				sort.Slice(all, func(i, j int) bool { return all[i].SwapId.String() < all[j].SwapId.String() })
				for _, sm := range all {
					js, _ := json.Marshal(sm)
					scid, peer := "", ""
					if sm.Data != nil {
						scid, peer = sm.Data.GetScid(), PeerName(sm.Data.PeerNodeId)
					}
					dsk = append(dsk, Ev{"sid": w.Peer.ensure(sm.SwapId.String()).Label, "cur": string(sm.Current), "role": roleName(sm), "digest": sha(js), "scid": scid, "nscid": nscid(scid), "peer": peer})
				}
			}
		}
		if b, err := os.ReadFile(d.policyPath); err == nil {
			ev["suspicious_peer"] = strings.Contains(string(b), "suspicious_peers="+Peer)
		}
	}
	ev["disk"] = dsk
	w.Emit("quiesce", ev)
}

func nscid(s string) string { return strings.ReplaceAll(s, ":", "x") }

func (n *Node) liveTimers() []string {
	n.tmu.Lock()
	defer n.tmu.Unlock()
	out := []string{}
	for _, t := range n.timers {
		if t.ctx.Err() == nil {
			out = append(out, n.w.Peer.Label(t.id))
		}
	}
	sort.Strings(out)
	return out
}
