package l1

import (
	"bytes"
	"encoding/base64"
	"encoding/hex"
	"encoding/json"
	"errors"
	"fmt"
	"strconv"
	"strings"
	"sync"

	"github.com/btcsuite/btcd/btcec/v2"
	"github.com/elementsproject/peerswap/messages"
	"github.com/elementsproject/peerswap/swap"
)

var kindOfType = map[int]string{
	int(messages.MESSAGETYPE_SWAPINREQUEST):        "swap_in_request",
	int(messages.MESSAGETYPE_SWAPOUTREQUEST):       "swap_out_request",
	int(messages.MESSAGETYPE_SWAPINAGREEMENT):      "swap_in_agreement",
	int(messages.MESSAGETYPE_SWAPOUTAGREEMENT):     "swap_out_agreement",
	int(messages.MESSAGETYPE_OPENINGTXBROADCASTED): "opening_tx_broadcasted",
	int(messages.MESSAGETYPE_CANCELED):             "cancel",
	int(messages.MESSAGETYPE_COOPCLOSE):            "coop_close",
	int(messages.MESSAGETYPE_POLL):                 "poll",
	int(messages.MESSAGETYPE_REQUEST_POLL):         "request_poll",
}

var typeOfKind = func() map[string]int {
	m := map[string]int{}
	for t, k := range kindOfType {
		m[k] = t
	}
	return m
}()

// SwapCtx is what the harness (playing the peer and the oracle's eyes) knows about one swap.
type SwapCtx struct {
	Label    string
	ID       string // hex
	Type     string // "out" | "in"
	MeRole   string // sender | receiver
	Chain    string
	Scid     string
	Amount   uint64
	Limit    int64
	Premium  int64
	Version  int
	MePub    string // node's swap pubkey as sent to the peer
	PeerKey  *btcec.PrivateKey
	PeerPub  string
	FeeInv   *Invoice // fee invoice (issued by the maker)
	ClaimInv *Invoice
	BlindKey string
	OpenTx   string // txid announced / broadcast
	From     string // peer name of the counterparty
}

type secret struct {
	kind  string // takerkey | makerkey | preimage | feepreimage
	label string
}

// PeerSim plays the counterparty (honest or malicious) and third parties.
type PeerSim struct {
	w       *World
	mu      sync.Mutex
	Swaps   map[string]*SwapCtx // by hex id
	ByLabel map[string]*SwapCtx
	nlabel  int
	secrets map[string]secret // hex -> secret
	sent    map[string]int    // payload digest -> count
	openings    map[string]swap.OpeningTxBroadcastedMessage // announcements already made (same variant => same transaction)
	lastOpening *swap.OpeningTxBroadcastedMessage
}

func newPeerSim(w *World) *PeerSim {
	return &PeerSim{w: w, Swaps: map[string]*SwapCtx{}, ByLabel: map[string]*SwapCtx{}, secrets: map[string]secret{}, sent: map[string]int{}}
}

func (p *PeerSim) ctx(id string) *SwapCtx {
	p.mu.Lock()
	defer p.mu.Unlock()
	return p.Swaps[id]
}

func (p *PeerSim) Label(id string) string {
	p.mu.Lock()
	defer p.mu.Unlock()
	if c, ok := p.Swaps[id]; ok {
		return c.Label
	}
	if id == "" {
		return "none"
	}
	return "u" + id[:min(6, len(id))]
}

func (p *PeerSim) newCtx(id string) *SwapCtx {
	p.mu.Lock()
	defer p.mu.Unlock()
	if c, ok := p.Swaps[id]; ok {
		return c
	}
	p.nlabel++
	k, _ := btcec.NewPrivateKey()
	c := &SwapCtx{Label: "s" + strconv.Itoa(p.nlabel), ID: id, PeerKey: k, PeerPub: hex.EncodeToString(k.PubKey().SerializeCompressed()), Version: 7}
	p.Swaps[id] = c
	p.ByLabel[c.Label] = c
	return c
}

func (p *PeerSim) labelByPub(op *swap.OpeningParams) string {
	p.mu.Lock()
	defer p.mu.Unlock()
	for _, c := range p.Swaps {
		if c.MePub != "" && (c.MePub == op.TakerPubkey || c.MePub == op.MakerPubkey) {
			return c.Label
		}
	}
	return "none"
}

func (p *PeerSim) noteSecret(hexv, kind, label string) {
	if hexv == "" {
		return
	}
	p.mu.Lock()
	p.secrets[strings.ToLower(hexv)] = secret{kind, label}
	p.mu.Unlock()
}

func (p *PeerSim) leaks(payload []byte) []Ev {
	p.mu.Lock()
	defer p.mu.Unlock()
	low := bytes.ToLower(payload)
	out := []Ev{}
	for h, s := range p.secrets {
		raw, _ := hex.DecodeString(h)
		if bytes.Contains(low, []byte(h)) || (len(raw) > 0 && (bytes.Contains(payload, raw) ||
			bytes.Contains(payload, []byte(base64.StdEncoding.EncodeToString(raw))) ||
			bytes.Contains(payload, []byte(base64.RawURLEncoding.EncodeToString(raw))))) {
			out = append(out, Ev{"k": s.kind, "s": s.label})
		}
	}
	return out
}

// ---- the node's messenger ---------------------------------------------------

type simMessenger struct {
	w       *World
	n       *Node
	handler func(peerId string, msgType string, payload []byte) error
}

func (m *simMessenger) AddMessageHandler(f func(peerId string, msgType string, payload []byte) error) {
	m.handler = f
}

func (m *simMessenger) SendMessage(peerId string, msg []byte, msgType int) error {
	if m.n.dead() {
		return errors.New("sim: node is down")
	}
	o := m.w.gate(m.n, "msg.send")
	kind := kindOfType[msgType]
	if kind == "" {
		kind = "type" + strconv.Itoa(msgType)
	}
	var f map[string]any
	json.Unmarshal(msg, &f)
	id, _ := f["swap_id"].(string)
	ps := m.w.Peer
	dg := sha(append([]byte(kind), msg...))
	ps.mu.Lock()
	ps.sent[dg]++
	nth := ps.sent[dg]
	ps.mu.Unlock()
	ev := Ev{"to": PeerName(peerId), "type": msgType, "kind": kind, "sid": ps.Label(id), "hasid": id != "", "ok": o == "", "nth": nth,
		"digest": dg, "leaks": ps.leaks(msg), "epoch": m.n.epoch}
	// re-encoding check (C21): the payload must decode to the same content
	ev["roundtrip"] = roundTrips(kind, msg)
	if o == "" {
		ps.observe(kind, id, f, ev)
	}
	if s, ok := f["message"].(string); ok {
		ev["text"] = clip(s, 60)
	}
	m.w.Emit("send", ev)
	if o != "" {
		return errors.New("sim: peer not connected")
	}
	m.w.after(m.n, "msg.send")
	return nil
}

func clip(s string, n int) string {
	if len(s) > n {
		return s[:n]
	}
	return s
}

func roundTrips(kind string, msg []byte) bool {
	var v any
	switch kind {
	case "swap_in_request":
		v = &swap.SwapInRequestMessage{}
	case "swap_out_request":
		v = &swap.SwapOutRequestMessage{}
	case "swap_in_agreement":
		v = &swap.SwapInAgreementMessage{}
	case "swap_out_agreement":
		v = &swap.SwapOutAgreementMessage{}
	case "opening_tx_broadcasted":
		v = &swap.OpeningTxBroadcastedMessage{}
	case "cancel":
		v = &swap.CancelMessage{}
	case "coop_close":
		v = &swap.CoopCloseMessage{}
	default:
		return false
	}
	if err := json.Unmarshal(msg, v); err != nil {
		return false
	}
	b, err := json.Marshal(v)
	return err == nil && bytes.Equal(b, msg)
}

// observe: the peer learns from the node's outgoing messages (and the trace gets the decoded fields).
func (p *PeerSim) observe(kind, id string, f map[string]any, ev Ev) {
	num := func(k string) int64 {
		switch v := f[k].(type) {
		case float64:
			return int64(v)
		}
		return 0
	}
	str := func(k string) string { s, _ := f[k].(string); return s }
	switch kind {
	case "swap_out_request", "swap_in_request":
		c := p.newCtx(id)
		c.Type = map[string]string{"swap_out_request": "out", "swap_in_request": "in"}[kind]
		c.MeRole = "sender"
		c.Scid = str("scid")
		c.Amount = uint64(num("amount"))
		c.Limit = num("acceptable_premium")
		c.Version = int(num("protocol_version"))
		c.MePub = str("pubkey")
		c.From = "peer"
		if str("asset") != "" && str("network") == "" {
			c.Chain = "lbtc"
		} else {
			c.Chain = "btc"
		}
		ev["sid"] = c.Label
		ev["amount"] = u64(c.Amount)
		ev["limit"] = c.Limit
		ev["scid"] = c.Scid
		ev["chain"] = c.Chain
		ev["ver"] = c.Version
	case "swap_out_agreement", "swap_in_agreement":
		if c := p.ctx(id); c != nil {
			c.MePub = str("pubkey")
			c.Premium = num("premium")
			ev["premium"] = c.Premium
			if pr := str("Payreq"); pr != "" {
				if inv, err := parsePayreq(pr); err == nil {
					ev["fee_msat"] = u64(inv.Msat)
					ev["fee_hash"] = inv.Hash
					p.w.LN.mu.Lock()
					c.FeeInv = p.w.LN.Invoices[inv.Hash]
					p.w.LN.mu.Unlock()
				}
			}
		}
	case "opening_tx_broadcasted":
		if c := p.ctx(id); c != nil {
			c.OpenTx = str("tx_id")
			ev["tx"] = c.OpenTx
			ev["vout"] = num("script_out")
			ev["blind"] = str("blinding_key") != ""
			if inv, err := parsePayreq(str("payreq")); err == nil {
				ev["inv_msat"] = u64(inv.Msat)
				ev["inv_hash"] = inv.Hash
				ev["inv_cltv"] = inv.Cltv
				ev["inv_expiry"] = inv.Expiry
				p.w.LN.mu.Lock()
				c.ClaimInv = p.w.LN.Invoices[inv.Hash]
				p.w.LN.mu.Unlock()
			}
			c.BlindKey = str("blinding_key")
		}
	case "coop_close":
		ev["privkey_len"] = len(str("privkey"))
	}
}

// ---- crafting messages to the node -------------------------------------------

// MsgSpec is one message delivery step of a schedule.
type MsgSpec struct {
	Kind string `json:"kind"`
	From string `json:"from"` // peer | third
	Sid  string `json:"sid"`  // label of the swap the id refers to ("new" = fresh id)
	V    string `json:"v"`    // variant of the main field
	// request fields
	Chain   string `json:"chain"`
	Scid    string `json:"scid"`
	Amt     string `json:"amt"`     // amount class
	Ver     int    `json:"ver"`     // protocol version
	Limit   string `json:"limit"`   // premium limit class: ok | low | zero | neg
	Asset   string `json:"asset"`   // asset/network class: own | other | both | neither | malformed
	Pubkey  string `json:"pubkey"`  // good | short | nonhex
	Premium string `json:"premium"` // agreement premium class
	// opening_tx_broadcasted fields
	Outs    []OutSpec `json:"outs"`
	Vout    string    `json:"vout"`     // right | other | oor
	InvMsat string    `json:"inv_msat"` // exact | plus | minus
	InvHash string    `json:"inv_hash"` // locked | other
	InvCltv int64     `json:"inv_cltv"`
	Blind   string    `json:"blind"` // good | other | malformed
	Confirm int       `json:"confirm"`  // blocks to mine including the tx right after announcing (0 = stays in mempool)
	// raw junk
	Raw     string `json:"raw"`
	RawType string `json:"raw_type"`
}

var amtClass = map[string]uint64{"": 1000000, "typ": 1000000, "min": 100000, "belowmin": 99999, "one": 1, "big": 1500000, "overcap": 30000000}

func premClass(c string, amount uint64, limit int64) int64 {
	switch c {
	case "", "zero":
		return 0
	case "limit":
		return limit
	case "over":
		return limit + 1
	case "neg":
		return -1000
	case "negall":
		return -int64(amount)
	case "negover":
		return -int64(amount) - 1
	case "huge":
		return 9223372036854775807
	case "small":
		return 100
	}
	v, _ := strconv.ParseInt(c, 10, 64)
	return v
}

func (p *PeerSim) resolve(sid string) (*SwapCtx, string) {
	p.mu.Lock()
	defer p.mu.Unlock()
	if c, ok := p.ByLabel[sid]; ok {
		return c, c.ID
	}
	return nil, ""
}

// Craft builds the payload for a message step. Returns type hex string and payload.
func (p *PeerSim) Craft(m *MsgSpec) (string, []byte, *SwapCtx, error) {
	if m.Kind == "raw" {
		if m.Raw == "big" { // larger than the 100 KiB the node accepts
			return m.RawType, []byte(`{"swap_id":"` + strings.Repeat("ab", 32) + `","message":"` + strings.Repeat("x", 100*1024) + `"}`), nil, nil
		}
		return m.RawType, []byte(m.Raw), nil, nil
	}
	t, ok := typeOfKind[m.Kind]
	if !ok {
		return "", nil, nil, fmt.Errorf("unknown kind %s", m.Kind)
	}
	thex := messages.MessageTypeToHexString(messages.MessageType(t))
	var c *SwapCtx
	var id string
	if m.Sid == "new" || m.Sid == "" {
		id = randHex(32)
	} else {
		c, id = p.resolve(m.Sid)
		if c == nil {
			return "", nil, nil, fmt.Errorf("unknown swap label %s", m.Sid)
		}
	}
	sid := new(swap.SwapId)
	if err := sid.FromString(id); err != nil {
		return "", nil, nil, err
	}
	var msg swap.PeerMessage
	switch m.Kind {
	case "swap_out_request", "swap_in_request":
		fresh := c == nil
		if fresh {
			c = p.newCtx(id)
			c.Type = map[string]string{"swap_out_request": "out", "swap_in_request": "in"}[m.Kind]
			c.MeRole = "receiver"
			c.From = m.From
		}
		chain := m.Chain
		if chain == "" {
			chain = p.w.Cfg.Chain
		}
		scid := m.Scid
		if scid == "" {
			scid = "100x1x1"
		}
		amount := amtClass[m.Amt]
		if amount == 0 {
			amount, _ = strconv.ParseUint(m.Amt, 10, 64)
		}
		ver := m.Ver
		if ver == 0 {
			ver = 7
		}
		var asset, network string
		switch m.Asset {
		case "", "own":
			if chain == "lbtc" {
				asset = LiquidAsset
			} else {
				network = BtcNetwork
			}
		case "other":
			if chain == "lbtc" {
				asset = "01" + strings.Repeat("ab", 32)
			} else {
				network = "mainnet"
			}
		case "both":
			asset, network = LiquidAsset, BtcNetwork
		case "neither":
		case "malformed":
			if chain == "lbtc" {
				asset = "zz"
			} else {
				network = "notanetwork"
			}
		}
		pub := c.PeerPub
		switch m.Pubkey {
		case "short":
			pub = pub[:64]
		case "nonhex":
			pub = "zz" + pub[2:]
		}
		var limit int64
		rate := p.w.Cfg.RatePPM // the rate the node charges this peer: peer-specific if configured
		if p.w.Cfg.PeerRatePPM != nil {
			rate = *p.w.Cfg.PeerRatePPM
		}
		switch m.Limit {
		case "", "ok":
			limit = int64(amount) // generous
		case "zero":
			limit = 0
		case "neg":
			limit = -1
		case "exact":
			limit = int64(amount) * rate / 1000000
		case "low":
			limit = int64(amount)*rate/1000000 - 1
		default:
			limit, _ = strconv.ParseInt(m.Limit, 10, 64)
		}
		if fresh {
			c.Chain, c.Scid, c.Amount, c.Limit, c.Version = chain, scid, amount, limit, ver
		}
		if m.Kind == "swap_out_request" {
			msg = &swap.SwapOutRequestMessage{ProtocolVersion: uint8(ver), SwapId: sid, Asset: asset, Network: network, Scid: scid, Amount: amount, Pubkey: pub, PremiumLimit: limit}
		} else {
			msg = &swap.SwapInRequestMessage{ProtocolVersion: uint8(ver), SwapId: sid, Asset: asset, Network: network, Scid: scid, Amount: amount, Pubkey: pub, PremiumLimit: limit}
		}
	case "swap_out_agreement":
		if c == nil {
			c = &SwapCtx{PeerPub: "02" + strings.Repeat("11", 32), Amount: 1000000}
		}
		pub := c.PeerPub
		if m.Pubkey == "short" {
			pub = pub[:64]
		}
		prem := premClass(m.Premium, c.Amount, c.Limit)
		feeMsat := p.w.Cfg.OpenFeeSat * 1000
		switch m.V {
		case "fee_max":
			feeMsat = p.w.Cfg.OpenFeeSat * 3 * 1000
		case "fee_high":
			feeMsat = (p.w.Cfg.OpenFeeSat*3 + 1) * 1000
		case "fee_zero":
			feeMsat = 0
		}
		inv := p.w.LN.NewPeerInvoice("fee", id, feeMsat, 9, m.From, "")
		if c.ID != "" && m.From == "peer" && c.FeeInv == nil {
			c.FeeInv = inv
			c.Premium = prem
		}
		msg = &swap.SwapOutAgreementMessage{ProtocolVersion: 7, SwapId: sid, Pubkey: pub, Payreq: inv.Payreq(), Premium: prem}
	case "swap_in_agreement":
		if c == nil {
			c = &SwapCtx{PeerPub: "02" + strings.Repeat("11", 32), Amount: 1000000}
		}
		pub := c.PeerPub
		if m.Pubkey == "short" {
			pub = pub[:64]
		}
		prem := premClass(m.Premium, c.Amount, c.Limit)
		if c.ID != "" && m.From == "peer" {
			c.Premium = prem
		}
		msg = &swap.SwapInAgreementMessage{ProtocolVersion: 7, SwapId: sid, Pubkey: pub, Premium: prem}
	case "opening_tx_broadcasted":
		if c == nil {
			c = &SwapCtx{PeerPub: "02" + strings.Repeat("11", 32), MePub: "02" + strings.Repeat("22", 32), Amount: 1000000, Chain: p.w.Cfg.Chain}
		}
		om, err := p.craftOpening(c, m)
		if err != nil {
			return "", nil, nil, err
		}
		om.SwapId = sid
		msg = om
	case "cancel":
		msg = &swap.CancelMessage{SwapId: sid, Message: "peer cancels"}
	case "coop_close":
		key := strings.Repeat("00", 32)
		if c != nil && c.PeerKey != nil {
			key = hex.EncodeToString(c.PeerKey.Serialize())
		}
		switch m.V {
		case "wrongkey":
			k, _ := btcec.NewPrivateKey()
			key = hex.EncodeToString(k.Serialize())
		case "malformed":
			key = "abcd"
		}
		msg = &swap.CoopCloseMessage{SwapId: sid, Message: "peer gives up", Privkey: key}
	}
	b, _, err := swap.MarshalPeerswapMessage(msg)
	return thex, b, c, err
}

// claim/opening amounts as the protocol defines them
func (c *SwapCtx) claimAmount() uint64 {
	if c.Type == "out" {
		return uint64(int64(c.Amount) + c.Premium)
	}
	return c.Amount
}
func (c *SwapCtx) openingAmount() uint64 {
	if c.Type == "in" {
		return uint64(int64(c.Amount) + c.Premium)
	}
	return c.Amount
}
func (c *SwapCtx) csv() uint32 {
	if c.Chain == "btc" {
		return 1008
	}
	if c.Version == 6 {
		return 60
	}
	return 10080
}

// craftOpening: the peer (as maker) broadcasts an opening transaction of the given shape and announces it.
func (p *PeerSim) craftOpening(c *SwapCtx, m *MsgSpec) (*swap.OpeningTxBroadcastedMessage, error) {
	chain := c.Chain
	if chain == "" {
		chain = p.w.Cfg.Chain
	}
	// the same announcement (same swap, sender and variant) names the same transaction and invoice:
	// re-delivery re-announces the transaction that may meanwhile have been confirmed
	kb, _ := json.Marshal(m)
	key := c.ID + "|" + string(kb)
	p.mu.Lock()
	if p.openings == nil {
		p.openings = map[string]swap.OpeningTxBroadcastedMessage{}
	}
	prev, seen := p.openings[key]
	p.mu.Unlock()
	if seen && c.ID != "" {
		cp := prev
		return &cp, nil
	}
	p.lastOpening = nil
	defer func() {
		if c.ID != "" && p.lastOpening != nil {
			p.mu.Lock()
			p.openings[key] = *p.lastOpening
			p.mu.Unlock()
		}
	}()
	// claim invoice
	msat := c.claimAmount() * 1000
	switch m.InvMsat {
	case "plus":
		msat += 1000
	case "minus":
		msat -= 1000
	case "plus1":
		msat += 1
	}
	cltv := m.InvCltv
	if cltv == 0 {
		cltv = map[string]int64{"btc": 503, "lbtc": 29}[chain]
	} else if cltv == -100 {
		cltv = 0
	}
	inv := p.w.LN.NewPeerInvoice("claim", c.ID, msat, cltv, m.From, "")
	locked := inv.Hash
	if m.InvHash == "other" { // the script locks a different hash than the invoice pays
		locked = hashOf(randHex(32))
	}
	blind := ""
	if chain == "lbtc" {
		blind = randHex(32)
	}
	var bk *btcec.PrivateKey
	if blind != "" {
		bk, _ = btcec.PrivKeyFromBytes(mustHex(blind))
	}
	params := &swap.OpeningParams{TakerPubkey: c.MePub, MakerPubkey: c.PeerPub, ClaimPaymentHash: locked, Amount: c.openingAmount(), CSV: c.csv(), BlindingKey: bk}
	outs := m.Outs
	if len(outs) == 0 {
		outs = []OutSpec{{Amt: "exact", Script: "good", Asset: "policy", Blind: "ok"}, {Amt: "other", Script: "p2wpkh", Asset: "policy", Blind: "ok"}}
	}
	tx, err := BuildOpening(chain, params, outs, blind)
	if err != nil {
		return nil, err
	}
	tx.Owner = "peer"
	tx.Swap = c.Label
	p.w.Chain[chain].AddTx(tx)
	good := -1
	anyGood := false
	for i, o := range outs {
		if o.Good() && good < 0 {
			good = i
			anyGood = true
		}
	}
	vout := 0
	switch m.Vout {
	case "", "right":
		if good >= 0 {
			vout = good
		}
	case "other":
		vout = (max(good, 0) + 1) % len(outs)
	case "oor":
		vout = len(outs) + 3
	}
	annBlind := blind
	switch m.Blind {
	case "other":
		annBlind = randHex(32)
	case "malformed":
		annBlind = "abcd"
	}
	if c.ID != "" && m.From == "peer" {
		c.ClaimInv = inv
		c.OpenTx = tx.ID
		c.BlindKey = annBlind
	}
	hashLocked := m.InvHash != "other"
	p.w.Emit("tx.new", Ev{"chain": chain, "tx": tx.ID, "owner": "peer", "sid": c.Label, "outs": outs, "any_good": anyGood && (chain != "lbtc" || m.Blind == "" || m.Blind == "good"),
		"hash_locked": hashLocked, "inv_hash": inv.Hash, "inv_msat_exact": m.InvMsat == "" || m.InvMsat == "exact", "inv_cltv": cltv, "ann_vout": vout, "good_vout": good})
	if m.Confirm > 0 {
		defer p.w.Chain[chain].Blocks(uint32(m.Confirm), []string{tx.ID})
	}
	p.lastOpening = &swap.OpeningTxBroadcastedMessage{Payreq: inv.Payreq(), TxId: tx.ID, ScriptOut: uint32(vout), BlindingKey: annBlind}
	return p.lastOpening, nil
}
