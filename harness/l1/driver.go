package l1

import (
	"encoding/json"
	"fmt"
	"strings"
	"time"

	"github.com/elementsproject/peerswap/swap"
	"go.etcd.io/bbolt"
)

// Step is one environment action of a schedule (exported from TLC or generated).
type Step struct {
	A      string              `json:"a"` // swapout swapin msg block pay htlc timer tick restart stop downgrade policy
	Chain  string              `json:"chain"`
	Scid   string              `json:"scid"`
	Amt    string              `json:"amt"`
	Limit  int64               `json:"limit"` // premium limit rate ppm for local initiations
	Msg    *MsgSpec            `json:"msg"`
	N      uint32              `json:"n"`       // blocks
	Incl   []string            `json:"incl"`    // "open:s1" | "spend:s1" | "all"
	Sid    string              `json:"sid"`     // swap label for pay / htlc
	Kind   string              `json:"kind"`    // pay: fee | claim ; htlc: settle | fail ; policy op
	M      int64               `json:"m"`       // tick minutes
	Faults map[string][]string `json:"faults"`  // gate -> outcome per occurrence
	Crash  *CrashSpec          `json:"crash"`
	To     string              `json:"to"`      // local initiation: counterparty (default peer)
}

// Schedule is one trace to produce.
type Schedule struct {
	Name    string  `json:"name"`
	Cfg     *Config `json:"cfg"`
	Version string  `json:"stored_version"` // "", "current", "none", or an old version string
	Steps   []Step  `json:"steps"`
	Closed  bool    `json:"closed"` // the schedule ends with the fair closure (peer silent, chain advances, services heal, restart)
	Closure string  `json:"closure"` // "" | "full" | "norestart"
}

func (w *World) cfgEv() Ev {
	c := w.Cfg
	pr := int64(0)
	if c.PeerRatePPM != nil {
		pr = *c.PeerRatePPM
	}
	return Ev{"chain": c.Chain, "allow_new": c.AllowNew, "accept_all": c.AcceptAll, "allow_peer": c.AllowPeer, "suspect_peer": c.SuspectPeer,
		"min_swap_msat": u64(c.MinSwapMsat), "btc_enabled": c.BtcEnabled, "lbtc_enabled": c.LbtcEnabled, "rate_ppm": c.RatePPM,
		"has_peer_rate": c.PeerRatePPM != nil, "peer_rate": pr, "wallet_sat": u64(c.WalletSat), "open_fee_sat": u64(c.OpenFeeSat),
		"spendable_msat": u64(c.SpendableMsat), "receivable_msat": u64(c.ReceivableMsat), "dup_pay": c.DupPay, "swap_vout": c.SwapVout}
}

func classify(err error) string {
	if err == nil {
		return "ok"
	}
	s := err.Error()
	switch {
	case strings.Contains(s, "already has an active swap"):
		return "err:active_swap"
	case strings.Contains(s, "unexpected peer"):
		return "err:unexpected_peer"
	case strings.Contains(s, "swap does not exist"):
		return "err:no_swap"
	case strings.Contains(s, "event rejected"):
		return "err:rejected"
	case strings.Contains(s, "suspicious"):
		return "err:suspicious"
	case strings.Contains(s, "swaps are disabled"):
		return "err:disabled"
	case strings.Contains(s, "unexpectedly large"):
		return "err:too_large"
	case strings.Contains(s, "minimum swap amount"):
		return "err:min_amount"
	}
	return "err:other"
}

// RunSchedule executes a schedule on a fresh world and records its trace.
func RunSchedule(w *World, s *Schedule) {
	w.Emit("reset", Ev{"name": s.Name, "cfg": w.cfgEv()})
	if err := w.Open(s.Version); err != nil {
		w.Emit("fault", Ev{"what": "open: " + err.Error(), "in": "harness"})
		return
	}
	if r := w.StartNode(false); r != "" {
		w.Emit("fault", Ev{"what": "start: " + r, "in": "harness"})
		return
	}
	w.Node.recovered = true // a fresh database: nothing to recover
	w.Quiesce()
	for i := range s.Steps {
		w.RunStep(i, &s.Steps[i])
		if w.Cfg.Retransmit {
			time.Sleep(80 * time.Millisecond) // several retransmission intervals (25 ms) pass between two environment steps
		}
	}
	if w.Cfg.Retransmit {
		time.Sleep(30 * time.Millisecond)
	}
	w.Emit("end", Ev{"steps": len(s.Steps), "closed": s.Closed, "closure": s.Closure})
}

func (w *World) resolveIncl(chain string, incl []string) []string {
	var out []string
	for _, x := range incl {
		switch {
		case x == "all":
			c := w.Chain[chain]
			c.mu.Lock()
			for id, tx := range c.Txs {
				if tx.ConfAt == 0 {
					out = append(out, id)
				}
			}
			c.mu.Unlock()
		case strings.HasPrefix(x, "open:"):
			if c, _ := w.Peer.resolve(x[5:]); c != nil && c.OpenTx != "" {
				out = append(out, c.OpenTx)
			}
		default:
			out = append(out, x)
		}
	}
	return out
}

// RunStep applies one environment action and runs the node to quiescence.
func (w *World) RunStep(i int, st *Step) {
	w.mu.Lock()
	w.faults = st.Faults
	w.gateOcc = map[string]int{}
	w.crashAt = st.Crash
	w.mu.Unlock()
	d := Ev{"i": i, "a": st.A}
	if st.Faults != nil {
		d["faults"] = st.Faults
	}
	if st.Crash != nil {
		d["crash_plan"] = st.Crash
	}
	up := w.Node != nil && !w.Node.dead()
	res := "ok"
	switch st.A {
	case "swapout", "swapin":
		chain := st.Chain
		if chain == "" {
			chain = w.Cfg.Chain
		}
		scid := st.Scid
		if scid == "" {
			scid = "100x1x1"
		}
		amt := amtClass[st.Amt]
		to := PeerKey(st.To)
		if st.To == "" {
			to = Peer
		}
		d["chain"], d["scid"], d["amount"], d["limit_ppm"], d["to"] = chain, scid, amt, st.Limit, PeerName(to)
		w.Emit("drive", d)
		if !up {
			res = "down"
			break
		}
		var err error
		r := w.runIsolated(func() {
			if st.A == "swapout" {
				_, err = w.Node.svc.SwapOut(to, chain, scid, Me, amt, st.Limit)
			} else {
				_, err = w.Node.svc.SwapIn(to, chain, scid, Me, amt, st.Limit)
			}
		})
		if r != "" {
			res = r
		} else {
			res = classify(err)
		}
	case "msg":
		thex, payload, c, err := w.Peer.Craft(st.Msg)
		if err != nil {
			d["craft_err"] = err.Error()
			w.Emit("drive", d)
			res = "skipped"
			break
		}
		d["kind"], d["from"], d["v"] = st.Msg.Kind, st.Msg.From, st.Msg.V
		d["sid"] = "none"
		if c != nil {
			d["sid"] = c.Label
			d["own_peer"] = c.From == st.Msg.From || c.From == ""
		}
		if st.Msg.Outs == nil {
			st.Msg.Outs = []OutSpec{}
		}
		d["msg"] = st.Msg
		d["len"] = len(payload)
		w.Emit("drive", d)
		if !up {
			res = "down"
			break
		}
		from := PeerKey(st.Msg.From)
		r := w.runIsolated(func() { err = w.Node.msgr.handler(from, thex, payload) })
		if r != "" {
			res = r
		} else {
			res = classify(err)
		}
	case "block":
		chain := st.Chain
		if chain == "" {
			chain = w.Cfg.Chain
		}
		n := st.N
		if n == 0 {
			n = 1
		}
		d["chain"], d["n"] = chain, n
		w.Emit("drive", d)
		w.Chain[chain].Blocks(n, w.resolveIncl(chain, st.Incl))
	case "pay":
		d["sid"], d["kind"] = st.Sid, st.Kind
		w.Emit("drive", d)
		if c, id := w.Peer.resolve(st.Sid); c != nil {
			if !w.LN.PeerPays(id, st.Kind) {
				res = "noop"
			}
		} else {
			res = "noop"
		}
	case "htlc":
		d["sid"], d["kind"] = st.Sid, st.Kind
		w.Emit("drive", d)
		if c, id := w.Peer.resolve(st.Sid); c == nil || !w.LN.ResolveHTLC(id, st.Kind == "settle") {
			res = "noop"
		}
	case "timer":
		w.Emit("drive", d)
		if up {
			if w.FireTimers() == 0 {
				res = "noop"
			}
		} else {
			res = "down"
		}
	case "tick":
		d["m"] = st.M
		w.Emit("drive", d)
		w.Now += st.M
		if up {
			w.fireDue() // everything that became due fires
		}
	case "restart":
		w.Emit("drive", d)
		w.StopNode()
		if r := w.StartNode(true); r != "" {
			res = "err:" + r
		}
	case "start": // process start up to Start(): handlers are registered, swaps not yet recovered
		w.Emit("drive", d)
		w.StopNode()
		if r := w.StartNode(false); r != "" {
			res = "err:" + r
		}
	case "recover": // SafeUpgrade + RecoverSwaps of a started node
		w.Emit("drive", d)
		if up && w.Node.recovered {
			res = "noop"
		} else if up {
			if r := w.RecoverNode(); r != "" {
				res = "err:" + r
			}
		} else {
			res = "down"
		}
	case "stop":
		w.Emit("drive", d)
		w.StopNode()
	case "downgrade":
		d["sid"] = st.Sid
		w.Emit("drive", d)
		w.StopNode() // the rewrite happens while the process is down (an upgrade from a release that spoke protocol 6)
		if err := w.downgradeToV6(st.Sid); err != nil {
			res = "err:" + err.Error()
		}
	case "policy":
		d["kind"] = st.Kind
		w.Emit("drive", d)
		if up {
			var err error
			switch st.Kind {
			case "disable":
				err = w.Node.pol.DisableSwaps()
			case "enable":
				err = w.Node.pol.EnableSwaps()
			case "suspect":
				err = w.Node.pol.AddToSuspiciousPeerList(Peer)
			case "unsuspect":
				err = w.Node.pol.RemoveFromSuspiciousPeerList(Peer)
			case "allow":
				err = w.Node.pol.AddToAllowlist(Peer)
			case "disallow":
				err = w.Node.pol.RemoveFromAllowlist(Peer)
			}
			res = classify(err)
		}
	default:
		d["unknown"] = true
		w.Emit("drive", d)
		res = "skipped"
	}
	if strings.HasPrefix(res, "panic") || res == "hang" || res == "goexit" {
		w.Emit("fault", Ev{"what": res, "in": st.A, "i": i})
	}
	w.drain()
	w.Emit("ret", Ev{"i": i, "a": st.A, "res": strings.SplitN(res, " |", 2)[0], "up": w.Node != nil && !w.Node.dead()})
	w.Quiesce()
}

// downgradeToV6 rewrites a persisted Liquid record into a legacy protocol-6
// record the way an upgrade from an older release would find it.
func (w *World) downgradeToV6(label string) error {
	c, id := w.Peer.resolve(label)
	if c == nil {
		return fmt.Errorf("unknown swap")
	}
	d := w.disk()
	err := d.db.Update(func(tx *bbolt.Tx) error {
		b := tx.Bucket([]byte("swaps"))
		if b == nil {
			return fmt.Errorf("no bucket")
		}
		key := mustHex(id)
		raw := b.Get(key)
		if raw == nil {
			return fmt.Errorf("no record")
		}
		var m map[string]any
		if err := json.Unmarshal(raw, &m); err != nil {
			return err
		}
		data, _ := m["data"].(map[string]any)
		for _, k := range []string{"swap_in_request", "swap_out_request", "swap_in_agreement", "swap_out_agreement"} {
			if mm, ok := data[k].(map[string]any); ok && mm != nil {
				mm["protocol_version"] = 6
			}
		}
		delete(data, "opening_block_height_set")
		out, err := json.Marshal(m)
		if err != nil {
			return err
		}
		c.Version = 6
		return b.Put(key, out)
	})
	if err != nil {
		return err
	}
	// a legacy swap's output was built with the legacy CSV: the (abstract) Liquid script of this swap's opening
	// transaction follows the record, as if the swap had been negotiated by the old release
	if lc := w.Chain["lbtc"]; lc != nil && c.MePub != "" {
		lc.mu.Lock()
		for _, tx := range lc.Txs {
			for i := range tx.Outs {
				o := &tx.Outs[i]
				if strings.HasPrefix(o.Script, "S|") && strings.Contains(o.Script, c.MePub) && strings.HasSuffix(o.Script, "|10080") {
					o.Script = strings.TrimSuffix(o.Script, "|10080") + "|60"
				}
			}
		}
		lc.mu.Unlock()
	}
	st, err := swap.NewBboltStore(d.db)
	if err != nil {
		return err
	}
	sm, err := st.GetData(id)
	if err != nil {
		return err
	}
	w.Emit("downgraded", Ev{"sid": label, "rec": w.project(sm)})
	return nil
}

var _ = swap.PEERSWAP_PROTOCOL_VERSION
