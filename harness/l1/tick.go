package l1

// onlyDue is set while a "tick" step fires the timers that became due.
func (w *World) fireDue() int {
	w.onlyDue = true
	defer func() { w.onlyDue = false }()
	return w.FireTimers()
}
