package l1

// onlyDue is set while a "tick" step fires the timers that became due.
func (w *World) fireDue() int {
	w.onlyDue = true
	defer func() { w.onlyDue = false }()
	return w.FireTimers()
}

// clampI64 keeps logged integers inside TLC's 32-bit range (|v| <= 10^9): extreme values are logged as +/-10^9.
func clampI64(v int64) int64 {
	if v > 1000000000 {
		return 1000000000
	}
	if v < -1000000000 {
		return -1000000000
	}
	return v
}
