package l1

import (
	"crypto/rand"
	"crypto/sha256"
	"encoding/hex"
	"encoding/json"
	"errors"
	"fmt"
	"strings"
	"sync"
	"time"

	"github.com/elementsproject/peerswap/swap"
)

// Invoice is a simulated BOLT11 invoice. The payment request string is
// "lnsim" + hex(JSON of the public fields); the preimage is known to the issuer only.
type Invoice struct {
	Hash     string `json:"hash"`
	Msat     uint64 `json:"msat"`
	Cltv     int64  `json:"cltv"`
	Expiry   uint64 `json:"expiry"`
	Payee    string `json:"payee"` // me | peer | third
	Kind     string `json:"kind"`  // fee | claim
	Swap     string `json:"swap"`
	Nonce    string `json:"nonce"`
	preimage string
	paid     bool
}

func (i *Invoice) Payreq() string {
	b, _ := json.Marshal(i)
	return "lnsim" + hex.EncodeToString(b)
}

func parsePayreq(p string) (*Invoice, error) {
	if !strings.HasPrefix(p, "lnsim") {
		return nil, errors.New("sim: not a payment request")
	}
	b, err := hex.DecodeString(p[5:])
	if err != nil {
		return nil, err
	}
	inv := &Invoice{}
	if err := json.Unmarshal(b, inv); err != nil {
		return nil, err
	}
	return inv, nil
}

func randHex(n int) string {
	b := make([]byte, n)
	rand.Read(b)
	return hex.EncodeToString(b)
}

func hashOf(preimageHex string) string {
	b, _ := hex.DecodeString(preimageHex)
	h := sha256.Sum256(b)
	return hex.EncodeToString(h[:])
}

type payment struct {
	Status string // none | inflight | succeeded | failed
	HTLCs  int
}

type notifier struct {
	n    *Node
	swap string
	hash string
	kind swap.InvoiceType
	done bool
}

// SimLN is the simulated Lightning node (state survives restarts of peerswap).
type SimLN struct {
	w        *World
	mu       sync.Mutex
	Invoices map[string]*Invoice // by hash (mine and the peer's)
	Pays     map[string]*payment // outgoing, by hash
	notif    []*notifier
}

func newSimLN(w *World) *SimLN {
	return &SimLN{w: w, Invoices: map[string]*Invoice{}, Pays: map[string]*payment{}}
}

// NewPeerInvoice creates an invoice issued by the peer (the harness knows its preimage).
func (l *SimLN) NewPeerInvoice(kind, swapId string, msat uint64, cltv int64, payee string, hashOverride string) *Invoice {
	pre := randHex(32)
	inv := &Invoice{Hash: hashOf(pre), Msat: msat, Cltv: cltv, Expiry: 3600, Payee: payee, Kind: kind, Swap: swapId, Nonce: randHex(4), preimage: pre}
	if hashOverride != "" {
		inv.Hash = hashOverride
		inv.preimage = ""
	}
	l.mu.Lock()
	if _, dup := l.Invoices[inv.Hash]; !dup {
		l.Invoices[inv.Hash] = inv
	}
	l.mu.Unlock()
	return inv
}

func (l *SimLN) pay(hash string) *payment {
	p, ok := l.Pays[hash]
	if !ok {
		p = &payment{Status: "none"}
		l.Pays[hash] = p
	}
	return p
}

// lnFacade is the swap.LightningClient handed to one node process.
type lnFacade struct {
	l   *SimLN
	n   *Node
	cbs []func(swapId string, invoiceType swap.InvoiceType)
}

func (f *lnFacade) w() *World { return f.l.w }

func (f *lnFacade) DecodePayreq(payreq string) (string, uint64, int64, error) {
	if o := f.w().gate(f.n, "ln.decode"); o != "" {
		return "", 0, 0, errors.New("sim: decodepay failed")
	}
	inv, err := parsePayreq(payreq)
	if err != nil {
		return "", 0, 0, err
	}
	return inv.Hash, inv.Msat, inv.Cltv, nil
}

func (f *lnFacade) PayInvoice(payreq string) (string, error) {
	return f.PayInvoiceViaChannel(payreq, "")
}

func (f *lnFacade) GetPayreq(msat uint64, preimage string, swapId string, memo string, it swap.InvoiceType, expiry, cltv uint64) (string, error) {
	if o := f.w().gate(f.n, "ln.invoice"); o != "" {
		return "", errors.New("sim: invoice failed")
	}
	inv := &Invoice{Hash: hashOf(preimage), Msat: msat, Cltv: int64(cltv), Expiry: expiry, Payee: "me", Kind: it.String(), Swap: swapId, Nonce: randHex(4), preimage: preimage}
	f.l.mu.Lock()
	f.l.Invoices[inv.Hash] = inv
	f.l.mu.Unlock()
	f.w().Emit("ln.invoice", Ev{"id": swapId, "kind": inv.Kind, "msat": u64(msat), "hash": inv.Hash, "expiry": expiry, "cltv": cltv, "memo": memo})
	f.w().after(f.n, "ln.invoice")
	return inv.Payreq(), nil
}

func (f *lnFacade) PayInvoiceViaChannel(payreq string, channel string) (string, error) {
	o := f.w().gate(f.n, "ln.payfee")
	inv, err := parsePayreq(payreq)
	if err != nil {
		return "", err
	}
	f.l.mu.Lock()
	p := f.l.pay(inv.Hash)
	known := f.l.Invoices[inv.Hash]
	if o == "" && p.Status != "succeeded" {
		p.Status = "succeeded"
		p.HTLCs++
	} else if o != "" && p.Status == "none" {
		p.Status = "failed"
	}
	f.l.mu.Unlock()
	res := "ok"
	if o != "" {
		res = "err"
	}
	f.w().Emit("ln.payfee", Ev{"id": inv.Swap, "hash": inv.Hash, "msat": u64(inv.Msat), "scid": channel, "payee": inv.Payee, "res": res})
	f.w().after(f.n, "ln.payfee")
	if o != "" {
		return "", errors.New("sim: fee payment failed")
	}
	if known != nil && known.preimage != "" {
		return known.preimage, nil
	}
	return randHex(32), nil
}

func (f *lnFacade) AddPaymentCallback(cb func(swapId string, invoiceType swap.InvoiceType)) {
	f.cbs = append(f.cbs, cb)
}

func (f *lnFacade) AddPaymentNotifier(swapId string, payreq string, it swap.InvoiceType) {
	f.w().gate(f.n, "ln.notifier")
	inv, err := parsePayreq(payreq)
	if err != nil {
		return
	}
	nt := &notifier{n: f.n, swap: swapId, hash: inv.Hash, kind: it}
	f.l.mu.Lock()
	f.l.notif = append(f.l.notif, nt)
	mine := f.l.Invoices[inv.Hash]
	paid := mine != nil && mine.paid
	f.l.mu.Unlock()
	f.w().Emit("ln.notifier", Ev{"id": swapId, "kind": it.String(), "hash": inv.Hash})
	if paid {
		f.l.fire(nt)
	}
	f.w().after(f.n, "ln.notifier")
}

func (l *SimLN) fire(nt *notifier) {
	if nt.done || nt.n.dead() {
		return
	}
	nt.done = true
	l.w.post(func() {
		if nt.n.dead() {
			return
		}
		l.w.Emit("cb.paid", Ev{"id": nt.swap, "kind": nt.kind.String()})
		for _, cb := range nt.n.ln.cbs {
			cb(nt.swap, nt.kind)
		}
	})
}

// PeerPays marks one of my invoices as paid by the peer and notifies the node.
func (l *SimLN) PeerPays(swapId, kind string) bool {
	l.mu.Lock()
	var inv *Invoice
	for _, i := range l.Invoices {
		if i.Payee == "me" && i.Swap == swapId && i.Kind == kind && !i.paid {
			inv = i
		}
	}
	if inv == nil {
		l.mu.Unlock()
		return false
	}
	inv.paid = true
	var fire []*notifier
	for _, nt := range l.notif {
		if nt.hash == inv.Hash && !nt.done {
			fire = append(fire, nt)
		}
	}
	l.mu.Unlock()
	l.w.Emit("ln.paid", Ev{"id": swapId, "kind": kind, "hash": inv.Hash, "msat": u64(inv.Msat)})
	for _, nt := range fire {
		l.fire(nt)
	}
	return true
}

func (f *lnFacade) truth(inv *Invoice) Ev {
	return Ev{"tip_btc": f.w().Chain["btc"].tip(), "tip_lbtc": f.w().Chain["lbtc"].tip()}
}

func (f *lnFacade) RebalancePayment(payreq string, channel string, maxTotalCLTVDelta uint32) (string, error) {
	o := f.w().gate(f.n, "ln.payclaim")
	inv, err := parsePayreq(payreq)
	if err != nil {
		return "", err
	}
	// Backstop: the retry loop normally ends after 12 attempts through the height lookup (chain.go). Code that no
	// longer looks the height up inside the loop is ended by the loop's own (compressed) time budget instead.
	f.w().mu.Lock()
	attempts := f.w().gateOcc["ln.payclaim"]
	f.w().mu.Unlock()
	if attempts > 14 {
		time.Sleep(400 * time.Millisecond)
		return "", errors.New("sim: payment retry budget exhausted")
	}
	f.l.mu.Lock()
	p := f.l.pay(inv.Hash)
	known := f.l.Invoices[inv.Hash]
	pre := ""
	if known != nil {
		pre = known.preimage
	}
	status := p.Status
	f.l.mu.Unlock()
	ev := f.truth(inv)
	ev["id"] = inv.Swap
	ev["hash"] = inv.Hash
	ev["msat"] = u64(inv.Msat)
	ev["scid"] = channel
	ev["maxdelta"] = maxTotalCLTVDelta
	ev["cltv"] = inv.Cltv
	ev["payee"] = inv.Payee
	switch status {
	case "succeeded":
		if f.w().Cfg.DupPay == "lnd" {
			ev["res"] = "dup_err"
			f.w().Emit("ln.payclaim", ev)
			return "", errors.New("sim: invoice is already paid")
		}
		ev["res"] = "dup_ok"
		f.w().Emit("ln.payclaim", ev)
		return pre, nil
	case "inflight":
		ev["res"] = "inflight_err"
		f.w().Emit("ln.payclaim", ev)
		return "", errors.New("sim: payment already in flight")
	}
	// the route builder refuses before any HTLC exists
	delta := inv.Cltv + 1
	if maxTotalCLTVDelta != 0 && (inv.Cltv < 0 || uint64(delta) > uint64(maxTotalCLTVDelta)) {
		ev["res"] = "route_refused"
		f.w().Emit("ln.payclaim", ev)
		return "", fmt.Errorf("sim: invoice requires CLTV delta %d, maximum is %d", delta, maxTotalCLTVDelta)
	}
	// a new HTLC is created
	advance := false
	f.l.mu.Lock()
	p.HTLCs++
	nh := p.HTLCs
	switch o {
	case "":
		if pre == "" { // nobody knows the preimage of this hash: the HTLC can only fail
			p.Status = "failed"
			o = "fail"
		} else {
			p.Status = "succeeded"
		}
	case "fail", "err", "fail_adv":
		p.Status = "failed"
		if o == "fail_adv" {
			advance = true
		}
		o = "fail"
	case "err_pending":
		p.Status = "inflight"
	case "err_settled":
		if pre == "" {
			p.Status = "failed"
			o = "fail"
		} else {
			p.Status = "succeeded"
		}
	default:
		p.Status = "failed"
		o = "fail"
	}
	f.l.mu.Unlock()
	ev["res"] = map[string]string{"": "ok", "fail": "fail", "err_pending": "err_pending", "err_settled": "err_settled"}[o]
	ev["delta"] = delta
	ev["nhtlc"] = nh
	f.w().Emit("ln.htlc", ev)
	if advance { // while the attempt fails, a whole payment window of blocks arrives on the swap's chain
		chain, win := "btc", uint32(504)
		if c := f.w().Peer.ctx(inv.Swap); c != nil && c.Chain == "lbtc" {
			chain, win = "lbtc", 60
			if c.Version == 6 {
				win = 30
			}
		}
		f.w().Chain[chain].Blocks(win, nil)
	}
	f.w().after(f.n, "ln.payclaim")
	if o == "" {
		return pre, nil
	}
	return "", errors.New("sim: payment failed: " + o)
}

// ResolveHTLC settles or fails the in-flight claim payment of a swap (environment step).
func (l *SimLN) ResolveHTLC(swapId string, settle bool) bool {
	l.mu.Lock()
	var hash string
	for h, p := range l.Pays {
		if p.Status == "inflight" {
			if inv := l.Invoices[h]; inv != nil && inv.Swap == swapId {
				hash = h
				if settle && inv.preimage != "" {
					p.Status = "succeeded"
				} else {
					p.Status = "failed"
					settle = false
				}
			}
		}
	}
	l.mu.Unlock()
	if hash == "" {
		return false
	}
	l.w.Emit("ln.htlcres", Ev{"id": swapId, "hash": hash, "res": map[bool]string{true: "settled", false: "failed"}[settle]})
	return true
}

func (f *lnFacade) RecoverClaimPayment(payreq string) (string, error) {
	o := f.w().gate(f.n, "ln.recover")
	inv, err := parsePayreq(payreq)
	if err != nil {
		return "", err
	}
	if o == "err" {
		return "", errors.New("sim: listsendpays failed")
	}
	f.l.mu.Lock()
	p := f.l.pay(inv.Hash)
	known := f.l.Invoices[inv.Hash]
	st := p.Status
	res := st
	pre := ""
	if known != nil {
		pre = known.preimage
	}
	if st == "inflight" {
		if o == "fail" || pre == "" {
			p.Status = "failed"
			res = "waited_failed"
		} else {
			p.Status = "succeeded"
			res = "waited_settled"
		}
	}
	f.l.mu.Unlock()
	f.w().Emit("ln.recover", Ev{"id": inv.Swap, "hash": inv.Hash, "res": res})
	switch res {
	case "succeeded", "waited_settled":
		return pre, nil
	case "none":
		return "", errors.New("claim payment was not found")
	}
	return "", errors.New("claim payment already failed")
}

func (f *lnFacade) CanSpend(msat uint64) error {
	if o := f.w().gate(f.n, "ln.canspend"); o != "" {
		return errors.New("sim: payment size exceeds limit")
	}
	return nil
}

func (f *lnFacade) Implementation() string { return "CLN" }

func (f *lnFacade) SpendableMsat(scid string) (uint64, error) {
	if o := f.w().gate(f.n, "ln.spendable"); o != "" {
		return 0, errors.New("sim: listpeerchannels failed")
	}
	return f.w().Cfg.SpendableMsat, nil
}

func (f *lnFacade) ReceivableMsat(scid string) (uint64, error) {
	if o := f.w().gate(f.n, "ln.receivable"); o != "" {
		return 0, errors.New("sim: listpeerchannels failed")
	}
	return f.w().Cfg.ReceivableMsat, nil
}

func (f *lnFacade) ProbePayment(scid string, msat uint64) (bool, string, error) {
	switch f.w().gate(f.n, "ln.probe") {
	case "":
		return true, "", nil
	case "fail":
		return false, "no route", nil
	}
	return false, "", errors.New("sim: probe rpc failed")
}

// u64 renders a uint64 for the trace: TLC integers are 32-bit, so large values
// are logged as decimal strings next to a saturated int.
func u64(v uint64) any {
	if v <= 2000000000 {
		return v
	}
	return uint64(2000000001) // "beyond 2*10^9": TLC integers are 32-bit; the observer treats this value as a class
}
