// Package tx: building blocks of the `tx` verification engine (C01 validator
// clause, C03, C08): swap parameter sets, concrete opening transactions for
// the abstract shapes of spec/TxShape.tla, simulated wallets / node back-ends
// behind the real adapters, and independent oracles for the produced
// transactions.
package tx

import (
	"crypto/sha256"
	"encoding/binary"
	"encoding/hex"
	"math/rand"

	"github.com/btcsuite/btcd/btcec/v2"
	"github.com/btcsuite/btcd/btcec/v2/ecdsa"
	"github.com/btcsuite/btcd/txscript"
	"github.com/elementsproject/peerswap/swap"
)

// Out is one abstract output of a shape (spec/TxShape.tla).
type Out struct {
	Amt    string `json:"amt"`
	Asset  string `json:"asset"`
	Blind  string `json:"blind"`
	Script string `json:"script"`
}

// Params is one concrete swap: keys, preimage, amount, CSV, blinding keys.
type Params struct {
	Chain     string
	Idx       int
	TakerKey  *btcec.PrivateKey
	MakerKey  *btcec.PrivateKey
	OtherKey  *btcec.PrivateKey
	Preimage  [32]byte
	Hash      [32]byte
	OtherHash [32]byte
	Amount    uint64
	CSV       uint32 // the chain's CSV for this swap
	OtherCSV  uint32
	BlindKey  *btcec.PrivateKey // announced blinding key (Liquid)
	WrongKey  *btcec.PrivateKey // some other blinding key (e.g. the maker wallet's own)
	rnd       *rand.Rand
}

// DetRand is a deterministic byte source derived from (seed, labels).
func DetRand(seed int64, labels ...string) *rand.Rand {
	h := sha256.New()
	var b [8]byte
	binary.BigEndian.PutUint64(b[:], uint64(seed))
	h.Write(b[:])
	for _, l := range labels {
		h.Write([]byte{0})
		h.Write([]byte(l))
	}
	s := h.Sum(nil)
	return rand.New(rand.NewSource(int64(binary.BigEndian.Uint64(s[:8]))))
}

func RandBytes(r *rand.Rand, n int) []byte {
	b := make([]byte, n)
	r.Read(b)
	return b
}

func RandKey(r *rand.Rand) *btcec.PrivateKey {
	for {
		b := RandBytes(r, 32)
		var s btcec.ModNScalar
		if overflow := s.SetByteSlice(b); overflow || s.IsZero() {
			continue
		}
		k, _ := btcec.PrivKeyFromBytes(b)
		return k
	}
}

// Amounts of the parameter sets (all below 2^31: TLC integers are 32-bit).
// Sets 0 and 1 are used for spends (fees of every class fit).
var Amounts = []uint64{100000, 2000000000, 546, 123456789, 4294967, 1000}

// NewParams derives parameter set number idx for a chain from the seed.
func NewParams(seed int64, chain string, idx int) *Params {
	r := DetRand(seed, "params", chain, string(rune('a'+idx)))
	p := &Params{Chain: chain, Idx: idx, rnd: r}
	p.TakerKey, p.MakerKey, p.OtherKey = RandKey(r), RandKey(r), RandKey(r)
	copy(p.Preimage[:], RandBytes(r, 32))
	p.Hash = sha256.Sum256(p.Preimage[:])
	copy(p.OtherHash[:], RandBytes(r, 32))
	p.Amount = Amounts[idx%len(Amounts)]
	if chain == "btc" {
		p.CSV = 1008
		p.OtherCSV = []uint32{1007, 60}[idx%2]
	} else {
		p.CSV = []uint32{60, 10080}[idx%2]
		p.OtherCSV = []uint32{10080, 60}[idx%2]
	}
	p.BlindKey, p.WrongKey = RandKey(r), RandKey(r)
	return p
}

func pubHex(k *btcec.PrivateKey) string { return hex.EncodeToString(k.PubKey().SerializeCompressed()) }

// Opening returns the swap's OpeningParams as the FSM would hand them to the
// validator / builders (GetOpeningParams).
func (p *Params) Opening() *swap.OpeningParams {
	o := &swap.OpeningParams{
		TakerPubkey:      pubHex(p.TakerKey),
		MakerPubkey:      pubHex(p.MakerKey),
		ClaimPaymentHash: hex.EncodeToString(p.Hash[:]),
		Amount:           p.Amount,
		CSV:              p.CSV,
	}
	if p.Chain == "lbtc" {
		o.BlindingKey = p.BlindKey
	}
	return o
}

// AmountOf maps an amount class to a value.
func (p *Params) AmountOf(class string) uint64 {
	switch class {
	case "exact":
		return p.Amount
	case "minus1":
		return p.Amount - 1
	case "plus1":
		return p.Amount + 1
	}
	return p.Amount/2 + 7
}

// Signer is the harness's swap.Signer (same as swap.Secp256k1Signer, whose key
// field is not settable from outside the package).
type Signer struct{ Key *btcec.PrivateKey }

func (s *Signer) Sign(hash []byte) (*ecdsa.Signature, error) { return ecdsa.Sign(s.Key, hash), nil }

// RefScript is the harness's own transcription of the opening script template
// (independent of onchain.GetOpeningTxScript, which is code under test).
func RefScript(taker, maker []byte, hash []byte, csv uint32) []byte {
	b := txscript.NewScriptBuilder()
	b.AddData(maker).AddOp(txscript.OP_CHECKSIG).AddOp(txscript.OP_NOTIF)
	b.AddData(maker).AddOp(txscript.OP_CHECKSIG).AddOp(txscript.OP_NOTIF)
	b.AddOp(txscript.OP_SIZE).AddData([]byte{0x20}).AddOp(txscript.OP_EQUALVERIFY)
	b.AddOp(txscript.OP_SHA256).AddData(hash).AddOp(txscript.OP_EQUALVERIFY)
	b.AddOp(txscript.OP_ENDIF)
	b.AddData(taker).AddOp(txscript.OP_CHECKSIG)
	b.AddOp(txscript.OP_ELSE)
	b.AddInt64(int64(csv)).AddOp(txscript.OP_CHECKSEQUENCEVERIFY)
	b.AddOp(txscript.OP_ENDIF)
	s, err := b.Script()
	if err != nil {
		panic(err)
	}
	return s
}

// GoodScript is the redeem script of the swap.
func (p *Params) GoodScript() []byte {
	return RefScript(p.TakerKey.PubKey().SerializeCompressed(), p.MakerKey.PubKey().SerializeCompressed(), p.Hash[:], p.CSV)
}

// RedeemOf maps a script class to a redeem script (nil for p2wpkh).
func (p *Params) RedeemOf(class string) []byte {
	t, m := p.TakerKey.PubKey().SerializeCompressed(), p.MakerKey.PubKey().SerializeCompressed()
	o := p.OtherKey.PubKey().SerializeCompressed()
	switch class {
	case "good":
		return RefScript(t, m, p.Hash[:], p.CSV)
	case "swapped":
		return RefScript(m, t, p.Hash[:], p.CSV)
	case "otherkey":
		return RefScript(o, m, p.Hash[:], p.CSV)
	case "otherhash":
		return RefScript(t, m, p.OtherHash[:], p.CSV)
	case "othercsv":
		return RefScript(t, m, p.Hash[:], p.OtherCSV)
	}
	return nil
}

// PkScriptOf maps a script class to an output script (p2wsh of the redeem
// script, or a p2wpkh of a fresh key hash).
func (p *Params) PkScriptOf(class string, r *rand.Rand) []byte {
	if rs := p.RedeemOf(class); rs != nil {
		h := sha256.Sum256(rs)
		return append([]byte{0x00, 0x20}, h[:]...)
	}
	return append([]byte{0x00, 0x14}, RandBytes(r, 20)...)
}
