package tx

import (
	"bytes"
	"crypto/sha256"
	"encoding/hex"
	"errors"
	"math/rand"

	"github.com/btcsuite/btcd/btcec/v2"
	"github.com/btcsuite/btcd/btcec/v2/ecdsa"
	"github.com/btcsuite/btcd/btcutil"
	"github.com/btcsuite/btcd/btcutil/psbt"
	"github.com/btcsuite/btcd/chaincfg"
	"github.com/btcsuite/btcd/chaincfg/chainhash"
	"github.com/btcsuite/btcd/txscript"
	"github.com/btcsuite/btcd/wire"
)

var BtcNet = &chaincfg.RegressionNetParams

func BtcTxHex(tx *wire.MsgTx) string {
	var b bytes.Buffer
	if err := tx.Serialize(&b); err != nil {
		panic(err)
	}
	return hex.EncodeToString(b.Bytes())
}

func BtcParse(h string) (*wire.MsgTx, error) {
	raw, err := hex.DecodeString(h)
	if err != nil {
		return nil, err
	}
	tx := wire.NewMsgTx(2)
	if err := tx.Deserialize(bytes.NewReader(raw)); err != nil {
		return nil, err
	}
	return tx, nil
}

// BuildBtcOpening builds the abstract shape as a real Bitcoin transaction
// (one signed-looking p2wpkh input, the outputs of the shape in order).
func BuildBtcOpening(p *Params, outs []Out, r *rand.Rand) *wire.MsgTx {
	tx := wire.NewMsgTx(2)
	var prev chainhash.Hash
	copy(prev[:], RandBytes(r, 32))
	in := wire.NewTxIn(wire.NewOutPoint(&prev, uint32(r.Intn(3))), nil, wire.TxWitness{RandBytes(r, 71), RandBytes(r, 33)})
	in.Sequence = 0xfffffffd
	tx.AddTxIn(in)
	for _, o := range outs {
		tx.AddTxOut(wire.NewTxOut(int64(p.AmountOf(o.Amt)), p.PkScriptOf(o.Script, r)))
	}
	return tx
}

// ---------------------------------------------------------------- sim wallet

// BtcWallet is the on-chain wallet of a simulated lightning node (behind the
// fake lightningd / lnd). It hands out p2wpkh addresses, funds transactions
// following a schedule (position of the requested output among change
// outputs, number of inputs) and records what is broadcast.
type BtcWallet struct {
	r         *rand.Rand
	Keys      map[string]*btcec.PrivateKey // address -> key
	Issued    []string                     // addresses handed out, in order
	Broadcast []string                     // raw tx hex handed to the broadcast interface
	// funding schedule
	Layout []Out // honest shape: exactly one "good" entry = the requested output
	NIn    int
	InKind string // kind of the funding inputs: p2wkh (default), np2wkh (p2sh-p2wkh), p2pkh (legacy)
	// prepared transaction (txprepare / FundPsbt)
	prepared   *wire.MsgTx
	prepValues []int64
	prepKeys   []*btcec.PrivateKey
	prepPrev   []*wire.MsgTx // legacy inputs: the previous transaction
}

func NewBtcWallet(r *rand.Rand) *BtcWallet {
	return &BtcWallet{r: r, Keys: map[string]*btcec.PrivateKey{}, NIn: 1}
}

func (w *BtcWallet) newKeyAddr() (*btcec.PrivateKey, btcutil.Address) {
	k := RandKey(w.r)
	a, err := btcutil.NewAddressWitnessPubKeyHash(btcutil.Hash160(k.PubKey().SerializeCompressed()), BtcNet)
	if err != nil {
		panic(err)
	}
	w.Keys[a.EncodeAddress()] = k
	return k, a
}

// NewAddr issues a fresh bech32 p2wpkh address.
func (w *BtcWallet) NewAddr() string {
	_, a := w.newKeyAddr()
	w.Issued = append(w.Issued, a.EncodeAddress())
	return a.EncodeAddress()
}

// Fund builds the unsigned funding transaction for one requested output and
// the PSBT (v0) describing its inputs.
func (w *BtcWallet) Fund(addr string, amount uint64) (*wire.MsgTx, *psbt.Packet, error) {
	a, err := btcutil.DecodeAddress(addr, BtcNet)
	if err != nil {
		return nil, nil, err
	}
	reqScript, err := txscript.PayToAddrScript(a)
	if err != nil {
		return nil, nil, err
	}
	layout := w.Layout
	if len(layout) == 0 {
		layout = []Out{{Amt: "exact", Script: "good"}}
	}
	tx := wire.NewMsgTx(2)
	total := int64(0)
	for _, o := range layout {
		var v int64
		var sc []byte
		switch {
		case o.Script == "good":
			v, sc = int64(amount), reqScript
		default:
			_, ca := w.newKeyAddr()
			sc, _ = txscript.PayToAddrScript(ca)
			if o.Amt == "exact" {
				v = int64(amount)
			} else {
				v = int64(amount)/2 + 7 + int64(w.r.Intn(1000))
			}
		}
		tx.AddTxOut(wire.NewTxOut(v, sc))
		total += v
	}
	fee := int64(1000 + w.r.Intn(500))
	total += fee
	n := w.NIn
	if n < 1 {
		n = 1
	}
	w.prepValues, w.prepKeys, w.prepPrev = nil, nil, nil
	for i := 0; i < n; i++ {
		v := total / int64(n)
		if i == n-1 {
			v = total - (total/int64(n))*int64(n-1)
		}
		k, _ := w.newKeyAddr()
		w.prepValues = append(w.prepValues, v)
		w.prepKeys = append(w.prepKeys, k)
		var prev chainhash.Hash
		copy(prev[:], RandBytes(w.r, 32))
		idx := uint32(w.r.Intn(4))
		var prevTx *wire.MsgTx
		if w.InKind == "p2pkh" {
			// a legacy input is described in the PSBT by its whole previous transaction
			prevTx = wire.NewMsgTx(2)
			var pp chainhash.Hash
			copy(pp[:], RandBytes(w.r, 32))
			prevTx.AddTxIn(wire.NewTxIn(wire.NewOutPoint(&pp, 0), RandBytes(w.r, 107), nil))
			for j := uint32(0); j < idx; j++ {
				prevTx.AddTxOut(wire.NewTxOut(int64(1000+w.r.Intn(100000)), append([]byte{0x00, 0x14}, RandBytes(w.r, 20)...)))
			}
			prevTx.AddTxOut(wire.NewTxOut(v, w.inScript(i)))
			prev = prevTx.TxHash()
		}
		w.prepPrev = append(w.prepPrev, prevTx)
		in := wire.NewTxIn(wire.NewOutPoint(&prev, idx), nil, nil)
		in.Sequence = 0xfffffffd
		tx.AddTxIn(in)
	}
	pk, err := psbt.NewFromUnsignedTx(tx)
	if err != nil {
		return nil, nil, err
	}
	w.describeInputs(pk)
	w.prepared = tx
	return tx, pk, nil
}

func (w *BtcWallet) keyHash(i int) []byte {
	return btcutil.Hash160(w.prepKeys[i].PubKey().SerializeCompressed())
}

// witness program of input i's key (p2wkh script / nested redeem script)
func (w *BtcWallet) wkhScript(i int) []byte { return append([]byte{0x00, 0x14}, w.keyHash(i)...) }

// inScript is the script of the output that input i spends.
func (w *BtcWallet) inScript(i int) []byte {
	switch w.InKind {
	case "np2wkh":
		return append(append([]byte{txscript.OP_HASH160, 0x14}, btcutil.Hash160(w.wkhScript(i))...), txscript.OP_EQUAL)
	case "p2pkh":
		return append(append([]byte{txscript.OP_DUP, txscript.OP_HASH160, 0x14}, w.keyHash(i)...), txscript.OP_EQUALVERIFY, txscript.OP_CHECKSIG)
	}
	return w.wkhScript(i)
}

func (w *BtcWallet) describeInputs(pk *psbt.Packet) {
	for i := range pk.Inputs {
		switch w.InKind {
		case "p2pkh":
			pk.Inputs[i].NonWitnessUtxo = w.prepPrev[i]
		case "np2wkh":
			pk.Inputs[i].WitnessUtxo = wire.NewTxOut(w.prepValues[i], w.inScript(i))
			pk.Inputs[i].RedeemScript = w.wkhScript(i)
		default:
			pk.Inputs[i].WitnessUtxo = wire.NewTxOut(w.prepValues[i], w.inScript(i))
		}
	}
}

func pushData(b []byte) []byte {
	s, err := txscript.NewScriptBuilder().AddData(b).Script()
	if err != nil {
		panic(err)
	}
	return s
}

// Sign signs the prepared transaction with real signatures for the kind of its
// inputs (nested and legacy inputs get a scriptSig, which changes the txid),
// checks every input with the script engine, and returns the transaction
// together with the finalized PSBT.
func (w *BtcWallet) Sign() (*wire.MsgTx, *psbt.Packet, error) {
	if w.prepared == nil {
		return nil, nil, errors.New("nothing prepared")
	}
	tx := w.prepared.Copy()
	prev := txscript.NewMultiPrevOutFetcher(nil)
	for i, in := range tx.TxIn {
		prev.AddPrevOut(in.PreviousOutPoint, wire.NewTxOut(w.prepValues[i], w.inScript(i)))
	}
	sh := txscript.NewTxSigHashes(tx, prev)
	for i := range tx.TxIn {
		switch w.InKind {
		case "p2pkh":
			ss, err := txscript.SignatureScript(tx, i, w.inScript(i), txscript.SigHashAll, w.prepKeys[i], true)
			if err != nil {
				return nil, nil, err
			}
			tx.TxIn[i].SignatureScript = ss
		default:
			wit, err := txscript.WitnessSignature(tx, sh, i, w.prepValues[i], w.wkhScript(i), txscript.SigHashAll, w.prepKeys[i], true)
			if err != nil {
				return nil, nil, err
			}
			tx.TxIn[i].Witness = wit
			if w.InKind == "np2wkh" {
				tx.TxIn[i].SignatureScript = pushData(w.wkhScript(i))
			}
		}
	}
	sh = txscript.NewTxSigHashes(tx, prev)
	for i := range tx.TxIn {
		vm, err := txscript.NewEngine(w.inScript(i), tx, i, txscript.StandardVerifyFlags, nil, sh, w.prepValues[i], prev)
		if err == nil {
			err = vm.Execute()
		}
		if err != nil {
			return nil, nil, errors.New("sim wallet produced an invalid signature: " + err.Error())
		}
	}
	pk, err := psbt.NewFromUnsignedTx(w.prepared)
	if err != nil {
		return nil, nil, err
	}
	w.describeInputs(pk)
	for i := range pk.Inputs {
		if len(tx.TxIn[i].Witness) > 0 {
			var b bytes.Buffer
			if err := psbt.WriteTxWitness(&b, tx.TxIn[i].Witness); err != nil {
				return nil, nil, err
			}
			pk.Inputs[i].FinalScriptWitness = b.Bytes()
		}
		if len(tx.TxIn[i].SignatureScript) > 0 {
			pk.Inputs[i].FinalScriptSig = tx.TxIn[i].SignatureScript
		}
	}
	return tx, pk, nil
}

func (w *BtcWallet) Publish(txHex string) { w.Broadcast = append(w.Broadcast, txHex) }

// -------------------------------------------------------------------- oracle

// consensus script flags (no policy-only flags)
const btcConsensusFlags = txscript.ScriptBip16 | txscript.ScriptVerifyDERSignatures |
	txscript.ScriptVerifyCheckLockTimeVerify | txscript.ScriptVerifyCheckSequenceVerify |
	txscript.ScriptVerifyWitness | txscript.ScriptStrictMultiSig | txscript.ScriptVerifyTaproot

// SpendFacts are the measured facts about a spending transaction (fields of
// the "s" trace event, see spec/SpendTx.tla).
type SpendFacts struct {
	NIn      int      `json:"nin"`
	InIdx    int      `json:"inidx"`
	Seq      int      `json:"seq"`
	Ver      int      `json:"txver"`
	NOut     int      `json:"nout"`
	ScriptOK bool     `json:"scriptok"`
	Value    int64    `json:"value"`
	FeeOut   int64    `json:"feeout"`
	ZkOK     bool     `json:"zkok"`
	Wit      []string `json:"wit"`
	Eng      bool     `json:"eng"`
	SSize    int      `json:"ssize"`
	Note     string   `json:"note,omitempty"`
}

func seqClass(seq uint32) int {
	if seq > 0xffff {
		return -1
	}
	return int(seq)
}

// classifySig returns sig_taker / sig_maker / bad for a witness element that
// should be DER||SIGHASH_ALL over sighash.
func classifySig(el []byte, sighash []byte, p *Params) string {
	if len(el) < 9 || el[len(el)-1] != byte(txscript.SigHashAll) {
		return "bad"
	}
	sig, err := ecdsa.ParseDERSignature(el[:len(el)-1])
	if err != nil {
		return "bad"
	}
	if sig.Verify(sighash, p.TakerKey.PubKey()) {
		return "sig_taker"
	}
	if sig.Verify(sighash, p.MakerKey.PubKey()) {
		return "sig_maker"
	}
	return "bad"
}

func classifyWitness(wit [][]byte, sighash []byte, p *Params) []string {
	out := make([]string, 0, len(wit))
	good := p.GoodScript()
	for _, el := range wit {
		switch {
		case len(el) == 0:
			out = append(out, "empty")
		case bytes.Equal(el, good):
			out = append(out, "script")
		case len(el) == 32:
			if h := sha256.Sum256(el); h == p.Hash {
				out = append(out, "preimage")
			} else {
				out = append(out, "bad")
			}
		default:
			if sighash == nil {
				out = append(out, "bad")
			} else {
				out = append(out, classifySig(el, sighash, p))
			}
		}
	}
	return out
}

// BtcSpendFacts measures a spending transaction against the opening
// transaction it is supposed to spend.
func BtcSpendFacts(p *Params, opening *wire.MsgTx, spendHex string, walletAddr string) SpendFacts {
	f := SpendFacts{InIdx: -1, Seq: -1, Value: -1, FeeOut: -1, Wit: []string{}}
	tx, err := BtcParse(spendHex)
	if err != nil {
		f.Note = "unparsable: " + err.Error()
		return f
	}
	f.NIn, f.NOut, f.Ver = len(tx.TxIn), len(tx.TxOut), int(tx.Version)
	f.SSize = tx.SerializeSizeStripped()
	if len(tx.TxOut) > 0 {
		f.Value = tx.TxOut[0].Value
		if a, err := btcutil.DecodeAddress(walletAddr, BtcNet); err == nil {
			if sc, err := txscript.PayToAddrScript(a); err == nil {
				f.ScriptOK = bytes.Equal(sc, tx.TxOut[0].PkScript)
			}
		}
	}
	if len(tx.TxIn) == 0 {
		return f
	}
	in := tx.TxIn[0]
	f.Seq = seqClass(in.Sequence)
	var prevOut *wire.TxOut
	if in.PreviousOutPoint.Hash == opening.TxHash() && int(in.PreviousOutPoint.Index) < len(opening.TxOut) {
		f.InIdx = int(in.PreviousOutPoint.Index)
		prevOut = opening.TxOut[f.InIdx]
	}
	if prevOut == nil {
		f.Wit = classifyWitness(in.Witness, nil, p)
		return f
	}
	fetch := txscript.NewCannedPrevOutputFetcher(prevOut.PkScript, prevOut.Value)
	sh := txscript.NewTxSigHashes(tx, fetch)
	sighash, err := txscript.CalcWitnessSigHash(p.GoodScript(), sh, txscript.SigHashAll, tx, 0, prevOut.Value)
	if err != nil {
		sighash = nil
	}
	f.Wit = classifyWitness(in.Witness, sighash, p)
	vm, err := txscript.NewEngine(prevOut.PkScript, tx, 0, btcConsensusFlags, nil, sh, prevOut.Value, fetch)
	if err == nil {
		err = vm.Execute()
	}
	f.Eng = err == nil
	if err != nil {
		f.Note = "engine: " + err.Error()
	}
	return f
}

// SwapIdxBtc returns the indices of the outputs carrying the swap script with
// the swap amount.
func SwapIdxBtc(p *Params, tx *wire.MsgTx) []int {
	want := p.PkScriptOf("good", nil)
	idx := []int{}
	for i, o := range tx.TxOut {
		if o.Value == int64(p.Amount) && bytes.Equal(o.PkScript, want) {
			idx = append(idx, i)
		}
	}
	return idx
}
