package tx

import (
	"bufio"
	"bytes"
	"context"
	"encoding/base64"
	"encoding/hex"
	"encoding/json"
	"errors"
	"fmt"
	"io"
	"net"
	"net/http"
	"net/http/httptest"
	"net/url"
	"os"
	"path/filepath"
	"strconv"
	"strings"
	"sync"

	"github.com/btcsuite/btcd/btcutil"
	"github.com/btcsuite/btcd/btcutil/psbt"
	"github.com/elementsproject/glightning/gbitcoin"
	"github.com/elementsproject/glightning/glightning"
	"github.com/lightningnetwork/lnd/lnrpc"
	"github.com/lightningnetwork/lnd/lnrpc/walletrpc"
	"google.golang.org/grpc"
)

// Estimator is the fake onchain.Estimator (fee estimator answer classes of
// spec/SpendTx.tla: err, zero, low (below the floor), normal, huge).
type Estimator struct {
	Class string
}

const (
	FeeFloor    = 253
	FeeFallback = 1000
)

func (e *Estimator) Answer() (int64, bool) {
	switch e.Class {
	case "err":
		return 0, true
	case "zero":
		return 0, false
	case "low":
		return 100, false
	case "huge":
		return 25000, false
	}
	return 2500, false
}

func (e *Estimator) EstimateFeePerKW(uint32) (btcutil.Amount, error) {
	r, isErr := e.Answer()
	if isErr {
		return 0, errors.New("estimator down")
	}
	return btcutil.Amount(r), nil
}
func (e *Estimator) Start() error { return nil }

// ------------------------------------------------------------ fake lightningd

// FakeCln is a lightningd JSON-RPC server on a unix socket (newaddr,
// txprepare, setpsbtversion, txsend) plus a bitcoind JSON-RPC server over
// HTTP (echo, sendrawtransaction), both backed by one BtcWallet. The real
// glightning / gbitcoin clients of the CLN adapter talk to them.
type FakeCln struct {
	W       *BtcWallet
	Version string // PSBT v2 marker is used from v23.05 on, as lightningd does
	dir     string
	ln      net.Listener
	http    *httptest.Server
	mu      sync.Mutex
	Calls   []string
	Gl      *glightning.Lightning
	Gb      *gbitcoin.Bitcoin
	newPsbt bool
}

const psbtV2Marker = "v2:"

func NewFakeCln(w *BtcWallet, workdir string, newPsbt bool) (*FakeCln, error) {
	dir, err := os.MkdirTemp(workdir, "cln")
	if err != nil {
		return nil, err
	}
	f := &FakeCln{W: w, dir: dir, newPsbt: newPsbt}
	f.ln, err = net.Listen("unix", filepath.Join(dir, "lightning-rpc"))
	if err != nil {
		return nil, err
	}
	go f.accept()
	f.http = httptest.NewServer(http.HandlerFunc(f.serveBitcoind))
	f.Gl = glightning.NewLightning()
	if err := f.Gl.StartUp("lightning-rpc", dir); err != nil {
		return nil, err
	}
	u, _ := url.Parse(f.http.URL)
	port, _ := strconv.Atoi(u.Port())
	f.Gb = gbitcoin.NewBitcoin("user", "pass", "")
	if err := f.Gb.StartUp("http://"+u.Hostname(), dir, uint(port)); err != nil {
		return nil, err
	}
	return f, nil
}

// Close removes the socket directory. The client connection is left to die
// with the process (jrpc2.Client.Shutdown races with its own read loop).
func (f *FakeCln) Close() {
	f.ln.Close()
	os.RemoveAll(f.dir)
}

func (f *FakeCln) Reset(w *BtcWallet, newPsbt bool) {
	f.mu.Lock()
	f.W, f.newPsbt, f.Calls = w, newPsbt, nil
	f.mu.Unlock()
}

func (f *FakeCln) accept() {
	for {
		c, err := f.ln.Accept()
		if err != nil {
			return
		}
		go f.serveConn(c)
	}
}

type rpcReq struct {
	Id     json.RawMessage `json:"id"`
	Method string          `json:"method"`
	Params json.RawMessage `json:"params"`
}

func (f *FakeCln) serveConn(c net.Conn) {
	defer c.Close()
	dec := json.NewDecoder(bufio.NewReader(c))
	for {
		var rq rpcReq
		if err := dec.Decode(&rq); err != nil {
			return
		}
		res, err := f.handleLn(rq.Method, rq.Params)
		writeRpc(c, rq.Id, res, err)
	}
}

func writeRpc(w io.Writer, id json.RawMessage, res any, err error) {
	out := map[string]any{"jsonrpc": "2.0", "id": id}
	if err != nil {
		out["error"] = map[string]any{"code": -1, "message": err.Error()}
	} else {
		out["result"] = res
	}
	b, _ := json.Marshal(out)
	w.Write(append(b, '\n', '\n'))
}

func encPsbt(p *psbt.Packet) (string, error) {
	var b bytes.Buffer
	if err := p.Serialize(&b); err != nil {
		return "", err
	}
	return base64.StdEncoding.EncodeToString(b.Bytes()), nil
}

func (f *FakeCln) handleLn(method string, params json.RawMessage) (any, error) {
	f.mu.Lock()
	defer f.mu.Unlock()
	f.Calls = append(f.Calls, method)
	var pm map[string]json.RawMessage
	json.Unmarshal(params, &pm)
	switch method {
	case "newaddr":
		var t string
		json.Unmarshal(pm["addresstype"], &t)
		if t != "" && t != "bech32" {
			return nil, fmt.Errorf("fake lightningd: unsupported addresstype %q", t)
		}
		return map[string]string{"bech32": f.W.NewAddr()}, nil
	case "txprepare":
		var outs []map[string]string
		if err := json.Unmarshal(pm["outputs"], &outs); err != nil || len(outs) != 1 {
			return nil, fmt.Errorf("fake lightningd: bad outputs %s", pm["outputs"])
		}
		var addr string
		var sat uint64
		for a, v := range outs[0] {
			addr = a
			n, err := strconv.ParseUint(strings.TrimSuffix(v, "sat"), 10, 64)
			if err != nil {
				return nil, err
			}
			sat = n
		}
		tx, pk, err := f.W.Fund(addr, sat)
		if err != nil {
			return nil, err
		}
		ps, err := encPsbt(pk)
		if err != nil {
			return nil, err
		}
		if f.newPsbt {
			ps = psbtV2Marker + ps
		}
		return map[string]string{"unsigned_tx": BtcTxHex(tx), "txid": tx.TxHash().String(), "psbt": ps}, nil
	case "setpsbtversion":
		var ps string
		var v int
		json.Unmarshal(pm["psbt"], &ps)
		json.Unmarshal(pm["version"], &v)
		if v != 0 || !strings.HasPrefix(ps, psbtV2Marker) {
			return nil, errors.New("fake lightningd: setpsbtversion expects a v2 psbt and version 0")
		}
		return map[string]string{"psbt": strings.TrimPrefix(ps, psbtV2Marker)}, nil
	case "txsend":
		var txid string
		json.Unmarshal(pm["txid"], &txid)
		if f.W.prepared == nil || f.W.prepared.TxHash().String() != txid {
			return nil, errors.New("fake lightningd: unknown prepared txid")
		}
		tx, pk, err := f.W.Sign()
		if err != nil {
			return nil, err
		}
		ps, _ := encPsbt(pk)
		h := BtcTxHex(tx)
		f.W.Publish(h)
		return map[string]string{"unsigned_tx": BtcTxHex(f.W.prepared), "tx": h, "txid": tx.TxHash().String(), "psbt": ps}, nil
	}
	return nil, fmt.Errorf("fake lightningd: unknown method %s", method)
}

func (f *FakeCln) serveBitcoind(w http.ResponseWriter, r *http.Request) {
	var rq rpcReq
	body, _ := io.ReadAll(r.Body)
	if err := json.Unmarshal(body, &rq); err != nil {
		http.Error(w, err.Error(), 400)
		return
	}
	f.mu.Lock()
	f.Calls = append(f.Calls, "bitcoind:"+rq.Method)
	var res any
	var err error
	switch rq.Method {
	case "echo":
		res = []string{}
	case "sendrawtransaction":
		var pm map[string]json.RawMessage
		json.Unmarshal(rq.Params, &pm)
		var h string
		json.Unmarshal(pm["hexstring"], &h)
		tx, perr := BtcParse(h)
		if perr != nil {
			err = perr
		} else {
			f.W.Publish(h)
			res = tx.TxHash().String()
		}
	default:
		err = fmt.Errorf("fake bitcoind: unknown method %s", rq.Method)
	}
	f.mu.Unlock()
	w.Header().Set("Content-Type", "application/json")
	var b bytes.Buffer
	writeRpc(&b, rq.Id, res, err)
	w.Write(b.Bytes())
}

// ------------------------------------------------------------------ fake lnd

// FakeLndLightning / FakeLndWalletKit implement the gRPC client interfaces the
// LND wallet adapter uses (NewAddress; FundPsbt, FinalizePsbt,
// PublishTransaction, LabelTransaction) over one BtcWallet.
type FakeLndLightning struct {
	lnrpc.LightningClient
	W     *BtcWallet
	Calls *[]string
}

func (f *FakeLndLightning) NewAddress(ctx context.Context, in *lnrpc.NewAddressRequest, opts ...grpc.CallOption) (*lnrpc.NewAddressResponse, error) {
	*f.Calls = append(*f.Calls, "NewAddress")
	if in.Type != lnrpc.AddressType_WITNESS_PUBKEY_HASH {
		return nil, errors.New("fake lnd: only p2wkh addresses")
	}
	return &lnrpc.NewAddressResponse{Address: f.W.NewAddr()}, nil
}

type FakeLndWalletKit struct {
	walletrpc.WalletKitClient
	W     *BtcWallet
	Calls *[]string
}

func (f *FakeLndWalletKit) FundPsbt(ctx context.Context, in *walletrpc.FundPsbtRequest, opts ...grpc.CallOption) (*walletrpc.FundPsbtResponse, error) {
	*f.Calls = append(*f.Calls, "FundPsbt")
	raw := in.GetRaw()
	if raw == nil || len(raw.Outputs) != 1 {
		return nil, errors.New("fake lnd: expected a raw template with one output")
	}
	for a, v := range raw.Outputs {
		_, pk, err := f.W.Fund(a, v)
		if err != nil {
			return nil, err
		}
		var b bytes.Buffer
		if err := pk.Serialize(&b); err != nil {
			return nil, err
		}
		return &walletrpc.FundPsbtResponse{FundedPsbt: b.Bytes(), ChangeOutputIndex: -1}, nil
	}
	return nil, errors.New("unreachable")
}

func (f *FakeLndWalletKit) FinalizePsbt(ctx context.Context, in *walletrpc.FinalizePsbtRequest, opts ...grpc.CallOption) (*walletrpc.FinalizePsbtResponse, error) {
	*f.Calls = append(*f.Calls, "FinalizePsbt")
	pk, err := psbt.NewFromRawBytes(bytes.NewReader(in.FundedPsbt), false)
	if err != nil {
		return nil, err
	}
	if f.W.prepared == nil || pk.UnsignedTx.TxHash() != f.W.prepared.TxHash() {
		return nil, errors.New("fake lnd: psbt is not the funded one")
	}
	tx, spk, err := f.W.Sign()
	if err != nil {
		return nil, err
	}
	var b bytes.Buffer
	if err := spk.Serialize(&b); err != nil {
		return nil, err
	}
	raw, _ := hex.DecodeString(BtcTxHex(tx))
	return &walletrpc.FinalizePsbtResponse{SignedPsbt: b.Bytes(), RawFinalTx: raw}, nil
}

func (f *FakeLndWalletKit) PublishTransaction(ctx context.Context, in *walletrpc.Transaction, opts ...grpc.CallOption) (*walletrpc.PublishResponse, error) {
	*f.Calls = append(*f.Calls, "PublishTransaction")
	h := hex.EncodeToString(in.TxHex)
	if _, err := BtcParse(h); err != nil {
		return nil, err
	}
	f.W.Publish(h)
	return &walletrpc.PublishResponse{}, nil
}

func (f *FakeLndWalletKit) LabelTransaction(ctx context.Context, in *walletrpc.LabelTransactionRequest, opts ...grpc.CallOption) (*walletrpc.LabelTransactionResponse, error) {
	return &walletrpc.LabelTransactionResponse{}, nil
}
