package tx

import (
	"bytes"
	"crypto/sha256"
	"encoding/hex"
	"errors"
	"fmt"
	"math/rand"
	"sync"

	"github.com/btcsuite/btcd/btcec/v2"
	"github.com/btcsuite/btcd/txscript"
	"github.com/elementsproject/glightning/gelements"
	"github.com/vulpemventures/go-elements/address"
	"github.com/vulpemventures/go-elements/confidential"
	"github.com/vulpemventures/go-elements/elementsutil"
	"github.com/vulpemventures/go-elements/network"
	"github.com/vulpemventures/go-elements/payment"
	"github.com/vulpemventures/go-elements/transaction"
	secp256k1 "github.com/vulpemventures/go-secp256k1-zkp"
)

var LqNet = &network.Regtest

// PolicyAsset is the 32-byte policy asset id in commitment byte order.
func PolicyAsset() []byte {
	b, _ := hex.DecodeString(LqNet.AssetID)
	return elementsutil.ReverseBytes(b)
}

// OtherAsset is some other asset id.
func OtherAsset() []byte { return bytes.Repeat([]byte{0x42}, 32) }

func explicitAsset(a []byte) []byte { return append([]byte{0x01}, a...) }

func scalar(r *rand.Rand) []byte {
	for {
		b := RandBytes(r, 32)
		var s btcec.ModNScalar
		if overflow := s.SetByteSlice(b); overflow || s.IsZero() {
			continue
		}
		return b
	}
}

// blindedOutput builds a confidential output: commitment to (committedAsset,
// committedAbf), value commitment, range proof whose message discloses
// (disclosedAsset, disclosedAbf), ECDH nonce for blindPub. This is the
// technique of onchain/liquid_test.go (newBlindedOpeningTx).
func blindedOutput(r *rand.Rand, value uint64, script []byte, blindPub *btcec.PublicKey,
	committedAsset, committedAbf, disclosedAsset, disclosedAbf, vbf []byte) (*transaction.TxOutput, error) {
	assetCommitment, err := confidential.AssetCommitment(committedAsset, committedAbf)
	if err != nil {
		return nil, err
	}
	valueCommitment, err := confidential.ValueCommitment(value, assetCommitment, vbf)
	if err != nil {
		return nil, err
	}
	eph := RandKey(r)
	nonce, err := confidential.NonceHash(blindPub.SerializeCompressed(), eph.Serialize())
	if err != nil {
		return nil, err
	}
	ctx, _ := secp256k1.ContextCreate(secp256k1.ContextBoth)
	defer secp256k1.ContextDestroy(ctx)
	commit, err := secp256k1.CommitmentParse(ctx, valueCommitment)
	if err != nil {
		return nil, err
	}
	gen, err := secp256k1.GeneratorParse(ctx, assetCommitment)
	if err != nil {
		return nil, err
	}
	msg := append(append([]byte{}, disclosedAsset...), disclosedAbf...)
	var vbf32 [32]byte
	copy(vbf32[:], vbf)
	minValue := uint64(1)
	if value == 0 {
		minValue = 0
	}
	rp, err := secp256k1.RangeProofSign(ctx, minValue, commit, vbf32, nonce, 0, 52, value, msg, script, gen)
	if err != nil {
		return nil, err
	}
	return &transaction.TxOutput{
		Asset: assetCommitment, Value: valueCommitment, Script: script,
		Nonce: eph.PubKey().SerializeCompressed(), RangeProof: rp,
	}, nil
}

// LqOutCache builds each concrete output class once per parameter set and
// instance number (outputs do not depend on their position in a transaction).
type LqOutCache struct {
	mu sync.Mutex
	m  map[string]*transaction.TxOutput
}

func NewLqOutCache() *LqOutCache { return &LqOutCache{m: map[string]*transaction.TxOutput{}} }

func (c *LqOutCache) get(p *Params, seed int64, o Out, inst int) (*transaction.TxOutput, error) {
	key := fmt.Sprintf("%d|%s.%s.%s.%s|%d", p.Idx, o.Amt, o.Asset, o.Blind, o.Script, inst)
	c.mu.Lock()
	if t, ok := c.m[key]; ok {
		c.mu.Unlock()
		return t, nil
	}
	c.mu.Unlock()
	r := DetRand(seed, "lqout", key)
	t, err := BuildLqOutput(p, o, r)
	if err != nil {
		return nil, err
	}
	c.mu.Lock()
	c.m[key] = t
	c.mu.Unlock()
	return t, nil
}

// BuildLqOutput builds one abstract output as a real Elements output.
func BuildLqOutput(p *Params, o Out, r *rand.Rand) (*transaction.TxOutput, error) {
	value := p.AmountOf(o.Amt)
	script := p.PkScriptOf(o.Script, r)
	if o.Blind == "explicit" {
		a := PolicyAsset()
		if o.Asset != "policy" {
			a = OtherAsset()
		}
		vb, err := elementsutil.ValueToBytes(value)
		if err != nil {
			return nil, err
		}
		return transaction.NewTxOutput(explicitAsset(a), vb, script), nil
	}
	pub := p.BlindKey.PubKey()
	if o.Blind == "wrongkey" {
		pub = p.WrongKey.PubKey()
	}
	abf, vbf := scalar(r), scalar(r)
	switch o.Asset {
	case "policy":
		return blindedOutput(r, value, script, pub, PolicyAsset(), abf, PolicyAsset(), abf, vbf)
	case "other":
		return blindedOutput(r, value, script, pub, OtherAsset(), abf, OtherAsset(), abf, vbf)
	default: // forged: committed to the other asset, discloses the policy asset
		return blindedOutput(r, value, script, pub, OtherAsset(), abf, PolicyAsset(), scalar(r), vbf)
	}
}

// BuildLqOpening builds the abstract shape as a real Elements transaction:
// one input, the shape's outputs in order, then the explicit fee output.
func BuildLqOpening(p *Params, seed int64, outs []Out, cache *LqOutCache, r *rand.Rand) (*transaction.Transaction, error) {
	tx := transaction.NewTx(2)
	in := transaction.NewTxInput(RandBytes(r, 32), uint32(r.Intn(3)))
	in.Sequence = 0xfffffffd
	in.Witness = transaction.TxWitness{RandBytes(r, 71), RandBytes(r, 33)}
	tx.AddInput(in)
	seen := map[Out]int{}
	for _, o := range outs {
		t, err := cache.get(p, seed, o, seen[o])
		if err != nil {
			return nil, err
		}
		seen[o]++
		tx.AddOutput(t)
	}
	fee, _ := elementsutil.ValueToBytes(250)
	tx.AddOutput(transaction.NewTxOutput(explicitAsset(PolicyAsset()), fee, []byte{}))
	return tx, nil
}

// ------------------------------------------------------------ fake elementsd

type lqUtxo struct {
	value    uint64
	abf, vbf []byte
}

// FakeElementsd implements wallet.RpcClient: the wallet RPCs of an elementsd
// node that the real wallet.ElementsRpcWallet drives (fundrawtransaction,
// blindrawtransaction, signrawtransactionwithwallet, sendrawtransaction,
// estimatesmartfee, getnewaddress). Funding follows a schedule: position of
// the requested output among change outputs, number of inputs; the fee output
// goes last, as elementsd does.
type FakeElementsd struct {
	r *rand.Rand
	// wallet keys: confidential address -> (spend key, blinding key)
	Blind  map[string]*btcec.PrivateKey
	Issued []string
	// schedule
	Layout []Out
	NIn    int
	// fee estimator answer
	FeeClass string
	// state
	ins       []lqUtxo
	Broadcast []string
	Calls     []string
}

func NewFakeElementsd(r *rand.Rand) *FakeElementsd {
	return &FakeElementsd{r: r, Blind: map[string]*btcec.PrivateKey{}, NIn: 1, FeeClass: "normal"}
}

func (f *FakeElementsd) newAddr() string {
	k, bk := RandKey(f.r), RandKey(f.r)
	pay := payment.FromPublicKey(k.PubKey(), LqNet, bk.PubKey())
	a, err := pay.ConfidentialWitnessPubKeyHash()
	if err != nil {
		panic(err)
	}
	f.Blind[a] = bk
	return a
}

func (f *FakeElementsd) GetNewAddress(addrType int) (string, error) {
	f.Calls = append(f.Calls, "getnewaddress")
	a := f.newAddr()
	f.Issued = append(f.Issued, a)
	return a, nil
}

func (f *FakeElementsd) EstimateFee(blocks uint32, mode string) (*gelements.FeeResponse, error) {
	f.Calls = append(f.Calls, "estimatesmartfee")
	switch f.FeeClass {
	case "err":
		return nil, errors.New("estimatesmartfee: connection refused")
	case "zero":
		return &gelements.FeeResponse{Errors: []string{"Insufficient data or no feerate found"}, Blocks: blocks}, nil
	case "low":
		return &gelements.FeeResponse{FeeRate: 0.0000001, Blocks: blocks}, nil
	case "huge":
		return &gelements.FeeResponse{FeeRate: 0.001, Blocks: blocks}, nil
	}
	return &gelements.FeeResponse{FeeRate: 0.00001, Blocks: blocks}, nil
}

func (f *FakeElementsd) FundRawWithOptions(txstring string, options *gelements.FundRawOptions, iswitness *bool) (*gelements.FundRawResult, error) {
	f.Calls = append(f.Calls, "fundrawtransaction")
	tx, err := transaction.NewTxFromHex(txstring)
	if err != nil {
		return nil, err
	}
	if len(tx.Outputs) != 1 {
		return nil, errors.New("fake elementsd: expected exactly one output to fund")
	}
	req := tx.Outputs[0]
	amount, err := elementsutil.ValueFromBytes(req.Value)
	if err != nil {
		return nil, err
	}
	layout := f.Layout
	if len(layout) == 0 {
		layout = []Out{{Amt: "exact", Script: "good"}}
	}
	funded := transaction.NewTx(2)
	total := uint64(0)
	chpos := -1
	for i, o := range layout {
		if o.Script == "good" {
			funded.AddOutput(req)
			total += amount
			continue
		}
		v := amount
		if o.Amt != "exact" {
			v = amount/2 + 7 + uint64(f.r.Intn(1000))
		}
		ca := f.newAddr()
		sc, _ := address.ToOutputScript(ca)
		vb, _ := elementsutil.ValueToBytes(v)
		co := transaction.NewTxOutput(req.Asset, vb, sc)
		co.Nonce = f.Blind[ca].PubKey().SerializeCompressed()
		funded.AddOutput(co)
		total += v
		chpos = i
	}
	fee := uint64(300 + f.r.Intn(200))
	fb, _ := elementsutil.ValueToBytes(fee)
	funded.AddOutput(transaction.NewTxOutput(req.Asset, fb, []byte{}))
	total += fee
	n := f.NIn
	if n < 1 {
		n = 1
	}
	f.ins = nil
	for i := 0; i < n; i++ {
		in := transaction.NewTxInput(RandBytes(f.r, 32), uint32(f.r.Intn(3)))
		in.Sequence = 0xfffffffd
		funded.AddInput(in)
		v := total / uint64(n)
		if i == n-1 {
			v = total - (total/uint64(n))*uint64(n-1)
		}
		f.ins = append(f.ins, lqUtxo{value: v, abf: scalar(f.r), vbf: scalar(f.r)})
	}
	h, err := funded.ToHex()
	if err != nil {
		return nil, err
	}
	return &gelements.FundRawResult{TxString: h, Fee: float64(fee) / 1e8, ChangePosition: chpos}, nil
}

// BlindRawTransaction blinds every output that carries a blinding pubkey in
// its nonce field; the last blinded output's value blinding factor balances
// the transaction.
func (f *FakeElementsd) BlindRawTransaction(txHex string) (string, error) {
	f.Calls = append(f.Calls, "blindrawtransaction")
	tx, err := transaction.NewTxFromHex(txHex)
	if err != nil {
		return "", err
	}
	var idx []int
	for i, o := range tx.Outputs {
		if len(o.Nonce) == 33 {
			idx = append(idx, i)
		}
	}
	if len(idx) == 0 {
		return txHex, nil
	}
	args := confidential.FinalValueBlindingFactorArgs{}
	var inAssets, inAbfs [][]byte
	for _, u := range f.ins {
		args.InValues = append(args.InValues, u.value)
		args.InGenerators = append(args.InGenerators, u.abf)
		args.InFactors = append(args.InFactors, u.vbf)
		inAssets = append(inAssets, PolicyAsset())
		inAbfs = append(inAbfs, u.abf)
	}
	abfs := make([][]byte, len(idx))
	vbfs := make([][]byte, len(idx))
	vals := make([]uint64, len(idx))
	for k, i := range idx {
		v, err := elementsutil.ValueFromBytes(tx.Outputs[i].Value)
		if err != nil {
			return "", err
		}
		vals[k], abfs[k] = v, scalar(f.r)
		args.OutValues = append(args.OutValues, v)
		args.OutGenerators = append(args.OutGenerators, abfs[k])
		if k < len(idx)-1 {
			vbfs[k] = scalar(f.r)
			args.OutFactors = append(args.OutFactors, vbfs[k])
		}
	}
	last, err := confidential.FinalValueBlindingFactor(args)
	if err != nil {
		return "", err
	}
	vbfs[len(idx)-1] = last[:]
	for k, i := range idx {
		o := tx.Outputs[i]
		pub, err := btcec.ParsePubKey(o.Nonce)
		if err != nil {
			return "", err
		}
		asset := o.Asset[1:]
		b, err := blindedOutput(f.r, vals[k], o.Script, pub, asset, abfs[k], asset, abfs[k], vbfs[k])
		if err != nil {
			return "", err
		}
		sp, ok := confidential.SurjectionProof(confidential.SurjectionProofArgs{
			OutputAsset: asset, OutputAssetBlindingFactor: abfs[k],
			InputAssets: inAssets, InputAssetBlindingFactors: inAbfs, Seed: RandBytes(f.r, 32),
		})
		if !ok {
			return "", errors.New("fake elementsd: surjection proof failed")
		}
		b.SurjectionProof = sp
		tx.Outputs[i] = b
	}
	return tx.ToHex()
}

func (f *FakeElementsd) SignRawTransactionWithWallet(txHex string) (gelements.SignRawTransactionWithWalletRes, error) {
	f.Calls = append(f.Calls, "signrawtransactionwithwallet")
	tx, err := transaction.NewTxFromHex(txHex)
	if err != nil {
		return gelements.SignRawTransactionWithWalletRes{}, err
	}
	for _, in := range tx.Inputs {
		in.Witness = transaction.TxWitness{append(RandBytes(f.r, 70), 0x01), RandKey(f.r).PubKey().SerializeCompressed()}
	}
	h, err := tx.ToHex()
	return gelements.SignRawTransactionWithWalletRes{Hex: h, Complete: true}, err
}

func (f *FakeElementsd) SendRawTx(txHex string) (string, error) {
	f.Calls = append(f.Calls, "sendrawtransaction")
	tx, err := transaction.NewTxFromHex(txHex)
	if err != nil {
		return "", err
	}
	f.Broadcast = append(f.Broadcast, txHex)
	return tx.TxHash().String(), nil
}

func (f *FakeElementsd) SendToAddress(address string, amount string) (string, error) {
	return "", errors.New("fake elementsd: not implemented")
}
func (f *FakeElementsd) GetBalance() (uint64, error) { return 1 << 40, nil }
func (f *FakeElementsd) LoadWallet(filename string, loadonstartup bool) (string, error) {
	return filename, nil
}
func (f *FakeElementsd) CreateWallet(walletname string) (string, error) { return walletname, nil }
func (f *FakeElementsd) SetRpcWallet(walletname string)                 {}
func (f *FakeElementsd) ListWallets() ([]string, error)                 { return []string{"swap"}, nil }
func (f *FakeElementsd) SetLabel(address, label string) error           { return nil }
func (f *FakeElementsd) Ping() (bool, error)                            { return true, nil }
func (f *FakeElementsd) GetNetworkInfo() (*gelements.NetworkInfo, error) {
	return &gelements.NetworkInfo{}, nil
}
func (f *FakeElementsd) DecodeRawTx(txstring string) (*gelements.Tx, error) {
	return &gelements.Tx{DiscountVirtualSize: 1}, nil
}

// -------------------------------------------------------------------- oracle

// LqUnblindSwap returns the indices of the outputs that carry the swap script
// and unblind with the given key to the policy asset and the swap amount
// (explicit outputs: read directly), checking the commitment against the
// disclosed asset.
func LqSwapIdx(p *Params, tx *transaction.Transaction, key *btcec.PrivateKey) []int {
	want := p.PkScriptOf("good", nil)
	idx := []int{}
	for i, o := range tx.Outputs {
		if !bytes.Equal(o.Script, want) {
			continue
		}
		if v, ok := lqReveal(o, key); ok && v == p.Amount {
			idx = append(idx, i)
		}
	}
	return idx
}

// LqSwapScriptIdx returns the indices of the outputs carrying the swap script
// and whether every one of them reveals the swap amount in the policy asset
// with the given blinding key.
func LqSwapScriptIdx(p *Params, tx *transaction.Transaction, key *btcec.PrivateKey) ([]int, bool) {
	want := p.PkScriptOf("good", nil)
	idx, all := []int{}, true
	for i, o := range tx.Outputs {
		if !bytes.Equal(o.Script, want) {
			continue
		}
		idx = append(idx, i)
		if v, ok := lqReveal(o, key); !ok || v != p.Amount {
			all = false
		}
	}
	return idx, all
}

// lqReveal returns the value of an output if it is in the policy asset and
// readable with key (explicit, or unblindable with a consistent commitment).
func lqReveal(o *transaction.TxOutput, key *btcec.PrivateKey) (uint64, bool) {
	if len(o.Nonce) <= 1 && len(o.Asset) == 33 && o.Asset[0] == 0x01 {
		if !bytes.Equal(o.Asset[1:], PolicyAsset()) {
			return 0, false
		}
		v, err := elementsutil.ValueFromBytes(o.Value)
		return v, err == nil
	}
	if key == nil {
		return 0, false
	}
	u, err := confidential.UnblindOutputWithKey(o, key.Serialize())
	if err != nil || !bytes.Equal(u.Asset, PolicyAsset()) {
		return 0, false
	}
	ac, err := confidential.AssetCommitment(u.Asset, u.AssetBlindingFactor)
	if err != nil || !bytes.Equal(ac, o.Asset) {
		return 0, false
	}
	return u.Value, true
}

// LqSpendFacts measures a Liquid spending transaction against the opening
// transaction: input/outpoint, sequence, outputs, unblinding of the wallet
// output with the wallet's blinding key, range and surjection proof,
// commitment balance, witness classification with ECDSA verification over the
// recomputed segwit-v0 sighash, and the script path evaluation.
func LqSpendFacts(p *Params, opening *transaction.Transaction, spendHex string, walletAddr string, walletBlind *btcec.PrivateKey) SpendFacts {
	f := SpendFacts{InIdx: -1, Seq: -1, Value: -1, FeeOut: -1, Wit: []string{}}
	tx, err := transaction.NewTxFromHex(spendHex)
	if err != nil {
		f.Note = "unparsable: " + err.Error()
		return f
	}
	f.NIn, f.NOut, f.Ver = len(tx.Inputs), len(tx.Outputs), int(tx.Version)
	f.SSize = tx.SerializeSize(false, false)
	if len(tx.Inputs) == 0 || len(tx.Outputs) == 0 {
		return f
	}
	in := tx.Inputs[0]
	f.Seq = seqClass(in.Sequence)
	oh := opening.TxHash()
	var prev *transaction.TxOutput
	if bytes.Equal(in.Hash, oh[:]) && int(in.Index) < len(opening.Outputs) {
		f.InIdx = int(in.Index)
		prev = opening.Outputs[f.InIdx]
	}
	// wallet output
	out := tx.Outputs[0]
	if sc, err := address.ToOutputScript(walletAddr); err == nil {
		f.ScriptOK = bytes.Equal(sc, out.Script)
	}
	var outU *confidential.UnblindOutputResult
	if walletBlind != nil && out.IsConfidential() {
		if u, err := confidential.UnblindOutputWithKey(out, walletBlind.Serialize()); err == nil && bytes.Equal(u.Asset, PolicyAsset()) {
			outU = u
			f.Value = int64(u.Value)
		} else if err != nil {
			f.Note = "unblind wallet output: " + err.Error()
		}
	}
	// fee output
	if len(tx.Outputs) >= 2 {
		fo := tx.Outputs[1]
		if len(fo.Script) == 0 && bytes.Equal(fo.Asset, explicitAsset(PolicyAsset())) && len(fo.Nonce) <= 1 {
			if v, err := elementsutil.ValueFromBytes(fo.Value); err == nil {
				f.FeeOut = int64(v)
			}
		}
	}
	if prev == nil {
		f.Wit = classifyWitness(in.Witness, nil, p)
		return f
	}
	// zero-knowledge part: commitment consistent with the disclosed asset,
	// range proof, surjection proof, blinding factors balance
	if outU != nil {
		inU, err := confidential.UnblindOutputWithKey(prev, p.BlindKey.Serialize())
		if err == nil {
			ac, _ := confidential.AssetCommitment(outU.Asset, outU.AssetBlindingFactor)
			rpOK := confidential.VerifyRangeProof(out.Value, out.Asset, out.Script, out.RangeProof)
			spOK := confidential.VerifySurjectionProof(confidential.VerifySurjectionProofArgs{
				InputAssets: [][]byte{inU.Asset}, InputAssetBlindingFactors: [][]byte{inU.AssetBlindingFactor},
				OutputAsset: outU.Asset, OutputAssetBlindingFactor: outU.AssetBlindingFactor, Proof: out.SurjectionProof,
			})
			want, err2 := confidential.FinalValueBlindingFactor(confidential.FinalValueBlindingFactorArgs{
				InValues: []uint64{inU.Value}, OutValues: []uint64{outU.Value},
				InGenerators: [][]byte{inU.AssetBlindingFactor}, OutGenerators: [][]byte{outU.AssetBlindingFactor},
				InFactors: [][]byte{inU.ValueBlindingFactor}, OutFactors: [][]byte{},
			})
			balOK := err2 == nil && bytes.Equal(want[:], outU.ValueBlindingFactor) &&
				f.FeeOut >= 0 && inU.Value == outU.Value+uint64(f.FeeOut)
			f.ZkOK = bytes.Equal(ac, out.Asset) && rpOK && spOK && balOK
			if !f.ZkOK {
				f.Note = fmt.Sprintf("zk: commit=%v range=%v surj=%v bal=%v", bytes.Equal(ac, out.Asset), rpOK, spOK, balOK)
			}
		}
	}
	// witness
	good := p.GoodScript()
	sighash := tx.HashForWitnessV0(0, good, prev.Value, txscript.SigHashAll)
	f.Wit = classifyWitness(in.Witness, sighash[:], p)
	// script evaluation (segwit v0 p2wsh, the three paths of the opening script)
	n := len(in.Witness)
	progOK := false
	if n > 0 {
		h := sha256.Sum256(in.Witness[n-1])
		progOK = bytes.Equal(prev.Script, append([]byte{0x00, 0x20}, h[:]...)) && bytes.Equal(in.Witness[n-1], good)
	}
	f.Eng = progOK && lqPathOK(f.Wit, in.Sequence, tx.Version, p.CSV)
	if !f.Eng && f.Note == "" {
		f.Note = fmt.Sprintf("script: program=%v wit=%v seq=%d", progOK, f.Wit, in.Sequence)
	}
	return f
}

func eqTokens(a []string, b ...string) bool {
	if len(a) != len(b) {
		return false
	}
	for i := range a {
		if a[i] != b[i] {
			return false
		}
	}
	return true
}

// lqPathOK evaluates the opening script on a classified witness.
func lqPathOK(w []string, seq uint32, version int32, csv uint32) bool {
	switch {
	case eqTokens(w, "sig_taker", "preimage", "empty", "empty", "script"):
		return true
	case eqTokens(w, "sig_taker", "sig_maker", "empty", "script"):
		return true
	case eqTokens(w, "sig_maker", "script"):
		// OP_CHECKSEQUENCEVERIFY (BIP112) with a height-based operand
		if version < 2 || seq&(1<<31) != 0 || seq&(1<<22) != 0 {
			return false
		}
		return seq&0xffff >= csv&0xffff
	}
	return false
}
