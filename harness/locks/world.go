package locks

import (
	"context"
	"crypto/rand"
	"crypto/sha256"
	"encoding/hex"
	"encoding/json"
	"errors"
	"fmt"
	"os"
	"path/filepath"
	"runtime"
	"strings"
	"sync"
	"time"

	goelectrum "github.com/checksum0/go-electrum/electrum"
	"github.com/elementsproject/peerswap/lwk"
	"github.com/elementsproject/peerswap/messages"
	"github.com/elementsproject/peerswap/policy"
	"github.com/elementsproject/peerswap/premium"
	"github.com/elementsproject/peerswap/swap"
	"github.com/elementsproject/peerswap/txwatcher"
	"go.etcd.io/bbolt"
)

const (
	Me   = "0279be667ef9dcbbac55a06295ce870b07029bfcdb2dce28d959f2815b16f81798"
	Peer = "02c6047f9441ed7d6d3045406e95c07cd85c778e4b8cef3ca7abac09b95c709ee5"
	Third = "02f9308a019258c31049344f85f89d5229b531c845836f99b08601f113bce036f9"

	LiquidAsset = "5ac9f65c0efcc4775e0baec4ec03abdde22473cd3cf33c0419ca290e0751b225aa"
	BtcNetwork  = "regtest"
)

func randHex(n int) string {
	b := make([]byte, n)
	rand.Read(b)
	return hex.EncodeToString(b)
}

func hashOf(preimageHex string) string {
	b, _ := hex.DecodeString(preimageHex)
	h := sha256.Sum256(b)
	return hex.EncodeToString(h[:])
}

// ---- chain --------------------------------------------------------------------

type Tx struct {
	ID     string
	Hex    string
	ConfAt uint32 // 0 = mempool
	Script string // hex pkScript of output 0 (the swap output)
	Spent  bool
}

// Chain is a simulated blockchain (reads take the read lock only, so that the
// simulation adds as few happens-before edges as possible).
type Chain struct {
	Name string
	mu   sync.RWMutex
	Tip  uint32
	Txs  map[string]*Tx
	hdr  chan *goelectrum.SubscribeHeadersResult
}

func newChain(name string, tip uint32) *Chain {
	return &Chain{Name: name, Tip: tip, Txs: map[string]*Tx{}, hdr: make(chan *goelectrum.SubscribeHeadersResult)}
}

func (c *Chain) Add(tx *Tx) {
	c.mu.Lock()
	c.Txs[tx.ID] = tx
	c.mu.Unlock()
}

// Mine adds n blocks; every mempool transaction is confirmed in the first.
func (c *Chain) Mine(n uint32) uint32 {
	c.mu.Lock()
	defer c.mu.Unlock()
	first := c.Tip + 1
	c.Tip += n
	for _, tx := range c.Txs {
		if tx.ConfAt == 0 {
			tx.ConfAt = first
		}
	}
	return c.Tip
}

func (c *Chain) tip() uint32 {
	c.mu.RLock()
	defer c.mu.RUnlock()
	return c.Tip
}

func (c *Chain) depth(tx *Tx) uint32 {
	if tx.ConfAt == 0 {
		return 0
	}
	return c.Tip - tx.ConfAt + 1
}

func blockHash(chain string, h uint32) string { return fmt.Sprintf("%s-blk-%d", chain, h) }

// rpcNode is the fake bitcoind / elementsd behind txwatcher.BlockchainRpc.
type rpcNode struct {
	c   *Chain
	ctl *Ctl
}

func (r *rpcNode) GetBlockHeight() (uint64, error) {
	r.ctl.Gate("rpc.height")
	return uint64(r.c.tip()), nil
}

func (r *rpcNode) GetTxOut(txid string, vout uint32) (*txwatcher.TxOutResp, error) {
	r.ctl.Gate("rpc.txout")
	r.c.mu.RLock()
	defer r.c.mu.RUnlock()
	tx := r.c.Txs[txid]
	if tx == nil || tx.Spent || vout != 0 {
		return nil, nil
	}
	return &txwatcher.TxOutResp{BestBlockHash: blockHash(r.c.Name, r.c.Tip), Confirmations: r.c.depth(tx), Value: 0.01}, nil
}

func (r *rpcNode) GetBlockHash(height uint32) (string, error) {
	r.ctl.Gate("rpc.hash")
	if height > r.c.tip() {
		return "", errors.New("Block height out of range")
	}
	return blockHash(r.c.Name, height), nil
}

func (r *rpcNode) GetRawtransactionWithBlockHash(txid string, blockHashS string) (string, error) {
	r.ctl.Gate("rpc.rawtx")
	r.c.mu.RLock()
	defer r.c.mu.RUnlock()
	tx := r.c.Txs[txid]
	if tx == nil || tx.ConfAt == 0 || blockHash(r.c.Name, tx.ConfAt) != blockHashS {
		return "", errors.New("No such transaction found in the provided block")
	}
	return tx.Hex, nil
}

// elNode is the fake Electrum server behind electrum.RPC.
type elNode struct {
	c   *Chain
	ctl *Ctl
}

func scriptHash(script []byte) string {
	h := sha256.Sum256(script)
	r := make([]byte, len(h))
	for i, b := range h {
		r[len(h)-1-i] = b
	}
	return fmt.Sprintf("%X", r)
}

func (e *elNode) SubscribeHeaders(ctx context.Context) (<-chan *goelectrum.SubscribeHeadersResult, error) {
	e.c.mu.RLock()
	defer e.c.mu.RUnlock()
	return e.c.hdr, nil
}

func (c *Chain) headers() chan *goelectrum.SubscribeHeadersResult {
	c.mu.RLock()
	defer c.mu.RUnlock()
	return c.hdr
}

func (e *elNode) GetHistory(ctx context.Context, sh string) ([]*goelectrum.GetMempoolResult, error) {
	e.ctl.Gate("el.history")
	e.c.mu.RLock()
	defer e.c.mu.RUnlock()
	var res []*goelectrum.GetMempoolResult
	for _, tx := range e.c.Txs {
		b, _ := hex.DecodeString(tx.Script)
		if scriptHash(b) == sh {
			res = append(res, &goelectrum.GetMempoolResult{Hash: tx.ID, Height: int32(tx.ConfAt)})
		}
	}
	return res, nil
}

func (e *elNode) GetRawTransaction(ctx context.Context, txHash string) (string, error) {
	e.ctl.Gate("el.rawtx")
	e.c.mu.RLock()
	defer e.c.mu.RUnlock()
	if tx := e.c.Txs[txHash]; tx != nil {
		return tx.Hex, nil
	}
	return "", errors.New("not found")
}
func (e *elNode) BroadcastTransaction(ctx context.Context, rawTx string) (string, error) {
	return "", errors.New("not used")
}
func (e *elNode) GetFee(ctx context.Context, target uint32) (float32, error) { return 0, errors.New("not used") }
func (e *elNode) Ping(ctx context.Context) error                             { return nil }
func (e *elNode) Reboot(ctx context.Context) error                           { return nil }

// watcherTap wraps a real watcher only to observe its callbacks (start/return
// of the watcher-originated entry points); every call is delegated unchanged.
type watcherTap struct {
	swap.TxWatcher
	ctl   *Ctl
	chain string
}

func (t *watcherTap) AddConfirmationCallback(f func(swapId string, txHex string, err error) error) {
	t.TxWatcher.AddConfirmationCallback(func(id, hx string, err error) error {
		if t.ctl.Det {
			t.ctl.Emit("cb", Ev{"p": t.ctl.whoami(), "cb": "conf", "ok": err == nil})
		}
		r := f(id, hx, err)
		if t.ctl.Det {
			t.ctl.Emit("cbret", Ev{"p": t.ctl.whoami(), "cb": "conf"})
		}
		return r
	})
}

func (t *watcherTap) AddCsvCallback(f func(swapId string) error) {
	t.TxWatcher.AddCsvCallback(func(id string) error {
		if t.ctl.Det {
			t.ctl.Emit("cb", Ev{"p": t.ctl.whoami(), "cb": "csv"})
		}
		r := f(id)
		if t.ctl.Det {
			t.ctl.Emit("cbret", Ev{"p": t.ctl.whoami(), "cb": "csv"})
		}
		return r
	})
}

// ---- lightning -------------------------------------------------------------------

type Invoice struct {
	Hash     string `json:"hash"`
	Msat     uint64 `json:"msat"`
	Cltv     int64  `json:"cltv"`
	Payee    string `json:"payee"`
	Kind     string `json:"kind"`
	Swap     string `json:"swap"`
	Nonce    string `json:"nonce"`
	preimage string
	paid     bool
}

func (i *Invoice) Payreq() string {
	b, _ := json.Marshal(i)
	return "lnsim" + hex.EncodeToString(b)
}

func parsePayreq(p string) (*Invoice, error) {
	if !strings.HasPrefix(p, "lnsim") {
		return nil, errors.New("sim: not a payment request")
	}
	b, err := hex.DecodeString(p[5:])
	if err != nil {
		return nil, err
	}
	inv := &Invoice{}
	if err := json.Unmarshal(b, inv); err != nil {
		return nil, err
	}
	return inv, nil
}

type notifier struct {
	swap string
	hash string
	kind swap.InvoiceType
	done bool
}

// LN is the simulated Lightning node.
type LN struct {
	ctl      *Ctl
	mu       sync.RWMutex
	invoices map[string]*Invoice
	notif    []*notifier
	cbs      []func(swapId string, invoiceType swap.InvoiceType)
	Fail     map[string]bool
}

func (l *LN) DecodePayreq(payreq string) (string, uint64, int64, error) {
	l.ctl.Gate("ln.decode")
	inv, err := parsePayreq(payreq)
	if err != nil {
		return "", 0, 0, err
	}
	return inv.Hash, inv.Msat, inv.Cltv, nil
}
func (l *LN) PayInvoice(payreq string) (string, error) { return l.PayInvoiceViaChannel(payreq, "") }
func (l *LN) GetPayreq(msat uint64, preimage, swapId, memo string, it swap.InvoiceType, expiry, cltv uint64) (string, error) {
	l.ctl.Gate("ln.invoice")
	inv := &Invoice{Hash: hashOf(preimage), Msat: msat, Cltv: int64(cltv), Payee: "me", Kind: it.String(), Swap: swapId, Nonce: randHex(4), preimage: preimage}
	l.mu.Lock()
	l.invoices[inv.Hash] = inv
	l.mu.Unlock()
	return inv.Payreq(), nil
}
func (l *LN) PayInvoiceViaChannel(payreq, channel string) (string, error) {
	l.ctl.Gate("ln.payfee")
	if _, err := parsePayreq(payreq); err != nil {
		return "", err
	}
	return randHex(32), nil
}
func (l *LN) AddPaymentCallback(cb func(swapId string, invoiceType swap.InvoiceType)) {
	l.mu.Lock()
	l.cbs = append(l.cbs, cb)
	l.mu.Unlock()
}
func (l *LN) AddPaymentNotifier(swapId, payreq string, it swap.InvoiceType) {
	l.ctl.Gate("ln.notifier")
	inv, err := parsePayreq(payreq)
	if err != nil {
		return
	}
	l.mu.Lock()
	l.notif = append(l.notif, &notifier{swap: swapId, hash: inv.Hash, kind: it})
	l.mu.Unlock()
}

// PeerPays marks my invoice of the swap as paid and runs the payment callbacks
// in the caller's goroutine (the entry point OnPayment).
func (l *LN) PeerPays(swapId string, kind swap.InvoiceType) bool {
	l.mu.Lock()
	var fire *notifier
	for _, nt := range l.notif {
		if nt.swap == swapId && nt.kind == kind && !nt.done {
			nt.done = true
			fire = nt
		}
	}
	cbs := append([]func(string, swap.InvoiceType){}, l.cbs...)
	l.mu.Unlock()
	if fire == nil {
		return false
	}
	for _, cb := range cbs {
		cb(swapId, kind)
	}
	return true
}
func (l *LN) RebalancePayment(payreq, channel string, maxDelta uint32) (string, error) {
	l.ctl.Gate("ln.payclaim")
	inv, err := parsePayreq(payreq)
	if err != nil {
		return "", err
	}
	if l.Fail["ln.payclaim"] {
		return "", errors.New("sim: payment failed")
	}
	return peerPreimage(inv.Hash), nil
}
func (l *LN) RecoverClaimPayment(payreq string) (string, error) {
	l.ctl.Gate("ln.recover")
	return "", errors.New("claim payment was not found")
}
func (l *LN) CanSpend(msat uint64) error { l.ctl.Gate("ln.canspend"); return nil }
func (l *LN) Implementation() string   { return "CLN" }
func (l *LN) SpendableMsat(scid string) (uint64, error) {
	l.ctl.Gate("ln.spendable")
	return 4000000000, nil
}
func (l *LN) ReceivableMsat(scid string) (uint64, error) {
	l.ctl.Gate("ln.receivable")
	return 4000000000, nil
}
func (l *LN) ProbePayment(scid string, msat uint64) (bool, string, error) {
	l.ctl.Gate("ln.probe")
	return true, "", nil
}

// preimages of invoices issued by the simulated peer
var peerPre sync.Map

func peerPreimage(hash string) string {
	if v, ok := peerPre.Load(hash); ok {
		return v.(string)
	}
	return randHex(32)
}

func newPeerInvoice(kind, swapId string, msat uint64, cltv int64) *Invoice {
	pre := randHex(32)
	inv := &Invoice{Hash: hashOf(pre), Msat: msat, Cltv: cltv, Payee: "peer", Kind: kind, Swap: swapId, Nonce: randHex(4), preimage: pre}
	peerPre.Store(inv.Hash, pre)
	return inv
}

// ---- wallet / validator -----------------------------------------------------------

type wallet struct {
	w     *World
	chain string
}

func (s *wallet) c() *Chain { return s.w.Chain[s.chain] }

func outScript(p *swap.OpeningParams) []byte {
	h := sha256.Sum256([]byte(fmt.Sprintf("S|%s|%s|%s|%d", p.TakerPubkey, p.MakerPubkey, p.ClaimPaymentHash, p.CSV)))
	return append([]byte{0x00, 0x20}, h[:]...)
}

func (s *wallet) SetLabel(txID, address, label string) error { s.w.Ctl.Gate("wallet.label"); return nil }
func (s *wallet) GetOutputScript(p *swap.OpeningParams) ([]byte, error) {
	s.w.Ctl.Gate("wallet.script")
	return outScript(p), nil
}
func (s *wallet) CreateOpeningTransaction(p *swap.OpeningParams) (string, string, string, uint64, uint32, error) {
	s.w.Ctl.Gate("wallet.open")
	tx := newOpeningTx(p)
	s.c().Add(tx)
	return tx.Hex, "addr-opening", tx.ID, 1000, 0, nil
}

func newOpeningTx(p *swap.OpeningParams) *Tx {
	id := randHex(32)
	return &Tx{ID: id, Hex: id + randHex(8), Script: hex.EncodeToString(outScript(p))}
}

func (s *wallet) spend(kind string, p *swap.OpeningParams, cp *swap.ClaimParams) (string, string, string, error) {
	s.w.Ctl.Gate("wallet." + kind)
	if s.w.fails("wallet." + kind) {
		return "", "", "", errors.New("sim: broadcast failed")
	}
	if len(cp.OpeningTxHex) < 64 {
		return "", "", "", errors.New("sim: opening transaction unknown")
	}
	c := s.c()
	c.mu.Lock()
	defer c.mu.Unlock()
	tx := c.Txs[cp.OpeningTxHex[:64]]
	if tx == nil {
		return "", "", "", errors.New("sim: opening transaction unknown to the chain")
	}
	if tx.Spent {
		return "", "", "", errors.New("sim: txn-mempool-conflict")
	}
	if kind == "csv" && c.depth(tx) < p.CSV {
		return "", "", "", errors.New("sim: non-BIP68-final")
	}
	tx.Spent = true
	return randHex(32), "", "addr-me", nil
}
func (s *wallet) CreatePreimageSpendingTransaction(p *swap.OpeningParams, cp *swap.ClaimParams) (string, string, string, error) {
	return s.spend("preimage", p, cp)
}
func (s *wallet) CreateCsvSpendingTransaction(p *swap.OpeningParams, cp *swap.ClaimParams) (string, string, string, error) {
	return s.spend("csv", p, cp)
}
func (s *wallet) CreateCoopSpendingTransaction(p *swap.OpeningParams, cp *swap.ClaimParams, taker swap.Signer) (string, string, string, error) {
	return s.spend("coop", p, cp)
}
func (s *wallet) NewAddress() (string, error)      { return "addr-me", nil }
func (s *wallet) GetRefundFee() (uint64, error)    { return 300, nil }
func (s *wallet) GetFlatOpeningTXFee() (uint64, error) {
	s.w.Ctl.Gate("wallet.fee")
	return 1000, nil
}
func (s *wallet) GetAsset() string {
	if s.chain == "lbtc" {
		return LiquidAsset
	}
	return ""
}
func (s *wallet) GetNetwork() string {
	if s.chain == "btc" {
		return BtcNetwork
	}
	return ""
}
func (s *wallet) GetOnchainBalance() (uint64, error) {
	s.w.Ctl.Gate("wallet.balance")
	return 100000000, nil
}

type validator struct {
	w     *World
	chain string
}

func (v *validator) TxIdFromHex(txHex string) (string, error) {
	if len(txHex) < 64 {
		return "", errors.New("sim: bad tx")
	}
	return txHex[:64], nil
}
func (v *validator) ValidateTx(p *swap.OpeningParams, txHex string) (bool, error) {
	v.w.Ctl.Gate("validate")
	return len(txHex) >= 64, nil
}
func (v *validator) GetCSVHeight() uint32 {
	if v.chain == "btc" {
		return 1008
	}
	return 10080
}

// ---- messenger / manager / store ----------------------------------------------------

type Sent struct {
	To      string
	Type    int
	Payload []byte
}

type messenger struct {
	w       *World
	mu      sync.RWMutex
	handler func(peerId string, msgType string, payload []byte) error
	sent    []Sent
}

func (m *messenger) AddMessageHandler(f func(peerId string, msgType string, payload []byte) error) {
	m.mu.Lock()
	m.handler = f
	m.mu.Unlock()
}
func (m *messenger) SendMessage(peerId string, msg []byte, msgType int) error {
	m.w.Ctl.Gate("msg.send")
	if m.w.fails("msg.send") {
		return errors.New("sim: peer unreachable")
	}
	m.mu.Lock()
	m.sent = append(m.sent, Sent{peerId, msgType, append([]byte{}, msg...)})
	m.mu.Unlock()
	return nil
}
func (m *messenger) last(t messages.MessageType) *Sent {
	m.mu.RLock()
	defer m.mu.RUnlock()
	for i := len(m.sent) - 1; i >= 0; i-- {
		if m.sent[i].Type == int(t) {
			s := m.sent[i]
			return &s
		}
	}
	return nil
}

type manager struct {
	w    *World
	real *messages.Manager
}

func (m *manager) AddSender(id string, ms messages.StoppableMessenger) error {
	m.w.Ctl.Gate("mgr.add")
	if m.w.fails("mgr.add") {
		return errors.New("sim: cannot add sender")
	}
	return m.real.AddSender(id, ms)
}
func (m *manager) RemoveSender(id string) {
	m.w.Ctl.Gate("mgr.remove")
	m.real.RemoveSender(id)
}

type store struct {
	w    *World
	real swap.Store
}

func (s *store) UpdateData(sm *swap.SwapStateMachine) error {
	s.w.Ctl.Gate("persist")
	return s.real.UpdateData(sm)
}
func (s *store) GetData(id string) (*swap.SwapStateMachine, error) { return s.real.GetData(id) }
func (s *store) ListAll() ([]*swap.SwapStateMachine, error)        { return s.real.ListAll() }
func (s *store) ListAllByPeer(p string) ([]*swap.SwapStateMachine, error) {
	return s.real.ListAllByPeer(p)
}

// ---- world ------------------------------------------------------------------------

// Cfg selects the watcher implementations of the node.
type Cfg struct {
	LbtcWatcher string `json:"lbtc_watcher"` // "el" (LWK electrumTxWatcher) | "rpc" (elementsd)
	RealLoops   bool   `json:"real_loops"`   // start the real polling loops of the RPC watchers (stress mode)
}

type timerEntry struct {
	ctx context.Context
	id  string
}

type World struct {
	Ctl   *Ctl
	Dir   string
	Cfg   Cfg
	Chain map[string]*Chain
	LN    *LN
	Msgr  *messenger
	Svc   *swap.SwapService
	Pol   *policy.Policy
	PolPath string
	Rpc   map[string]*txwatcher.BlockchainRpcTxWatcher
	El    swap.TxWatcher
	db, pdb *bbolt.DB
	cancel context.CancelFunc

	fmu    sync.RWMutex
	faults map[string]bool

	tmu    sync.Mutex
	timers []*timerEntry
}

func (w *World) fails(g string) bool {
	w.fmu.RLock()
	defer w.fmu.RUnlock()
	return w.faults[g]
}

func (w *World) SetFault(g string, on bool) {
	w.fmu.Lock()
	w.faults[g] = on
	w.fmu.Unlock()
}

func NewWorld(ctl *Ctl, dir string, cfg Cfg) (*World, error) {
	w := &World{Ctl: ctl, Dir: dir, Cfg: cfg, faults: map[string]bool{}, Rpc: map[string]*txwatcher.BlockchainRpcTxWatcher{}}
	w.Chain = map[string]*Chain{"btc": newChain("btc", 1000), "lbtc": newChain("lbtc", 50000)}
	w.LN = &LN{ctl: ctl, invoices: map[string]*Invoice{}, Fail: map[string]bool{}}
	os.MkdirAll(dir, 0o755)
	var err error
	if w.db, err = bbolt.Open(filepath.Join(dir, "swaps.db"), 0o644, &bbolt.Options{NoSync: true, NoFreelistSync: true}); err != nil {
		return nil, err
	}
	if w.pdb, err = bbolt.Open(filepath.Join(dir, "premium.db"), 0o644, &bbolt.Options{NoSync: true, NoFreelistSync: true}); err != nil {
		return nil, err
	}
	w.PolPath = filepath.Join(dir, "policy.conf")
	pl := "allow_new_swaps=true\naccept_all_peers=true\nmin_swap_amount_msat=100000000\n"
	if err := os.WriteFile(w.PolPath, []byte(pl), 0o644); err != nil {
		return nil, err
	}
	ps, err := premium.NewSetting(w.pdb)
	if err != nil {
		return nil, err
	}
	for _, a := range []premium.AssetType{premium.BTC, premium.LBTC} {
		for _, o := range []premium.OperationType{premium.SwapIn, premium.SwapOut} {
			r, _ := premium.NewPremiumRate(a, o, premium.NewPPM(10000))
			if err := ps.SetDefaultRate(context.Background(), r); err != nil {
				return nil, err
			}
		}
	}
	return w, w.StartNode(false)
}

// StartNode starts (or restarts) the peerswap services on the world's files.
func (w *World) StartNode(recoverSwaps bool) error {
	if w.cancel != nil {
		w.cancel()
		// the watcher goroutine of the stopped process keeps the old subscription; the new process subscribes anew
		for _, c := range w.Chain {
			c.mu.Lock()
			c.hdr = make(chan *goelectrum.SubscribeHeadersResult)
			c.mu.Unlock()
		}
	}
	ctx, cancel := context.WithCancel(context.Background())
	w.cancel = cancel
	pol, err := policy.CreateFromFile(w.PolPath)
	if err != nil {
		return err
	}
	w.Pol = pol
	real, err := swap.NewBboltStore(w.db)
	if err != nil {
		return err
	}
	rs, err := swap.NewRequestedSwapsStore(w.db)
	if err != nil {
		return err
	}
	ps, err := premium.NewSetting(w.pdb)
	if err != nil {
		return err
	}
	w.Msgr = &messenger{w: w}
	mgr := &manager{w: w, real: messages.NewManager()}
	mkRpc := func(chain string, confs uint32) swap.TxWatcher {
		rw := txwatcher.NewBlockchainRpcTxWatcher(ctx, &rpcNode{c: w.Chain[chain], ctl: w.Ctl}, confs)
		w.Rpc[chain] = rw
		return &watcherTap{TxWatcher: rw, ctl: w.Ctl, chain: chain}
	}
	bt := mkRpc("btc", 3)
	var lt swap.TxWatcher
	if w.Cfg.LbtcWatcher == "rpc" {
		lt = mkRpc("lbtc", 2)
	} else {
		ew, err := lwk.NewElectrumTxWatcher(&elNode{c: w.Chain["lbtc"], ctl: w.Ctl})
		if err != nil {
			return err
		}
		w.El = ew
		lt = &watcherTap{TxWatcher: ew, ctl: w.Ctl, chain: "lbtc"}
	}
	services := swap.NewSwapServices(&store{w: w, real: real}, rs, w.LN, w.Msgr, mgr, pol,
		true, &wallet{w: w, chain: "btc"}, &validator{w: w, chain: "btc"}, bt,
		true, &wallet{w: w, chain: "lbtc"}, &validator{w: w, chain: "lbtc"}, lt, ps)
	w.Svc = swap.NewSwapService(services)
	w.LN.mu.Lock()
	w.LN.cbs = nil
	w.LN.mu.Unlock()
	if err := w.Svc.Start(); err != nil {
		return err
	}
	w.Svc.VerifSetTimeoutService(func(ctx context.Context, dur time.Duration, id string) {
		w.tmu.Lock()
		w.timers = append(w.timers, &timerEntry{ctx: ctx, id: id})
		w.tmu.Unlock()
	})
	// the watchers are started after the callbacks are registered, as in main()
	if w.El != nil && w.Cfg.LbtcWatcher != "rpc" {
		started := make(chan error, 1)
		go func() { started <- w.El.StartWatchingTxs() }()
		w.Chain["lbtc"].headers() <- &goelectrum.SubscribeHeadersResult{Height: int32(w.Chain["lbtc"].tip())}
		if err := <-started; err != nil {
			return err
		}
	}
	if w.Cfg.RealLoops {
		for _, rw := range w.Rpc {
			if err := rw.StartWatchingTxs(); err != nil {
				return err
			}
		}
	}
	if recoverSwaps {
		return w.Svc.RecoverSwaps()
	}
	return nil
}

// Block mines n blocks on a chain and delivers the notification to the real
// watcher of that chain in the calling goroutine (RPC watcher: the body of its
// dispatcher loop; Electrum: the header goes to the watcher's own goroutine).
func (w *World) Block(chain string, n uint32) {
	tip := w.Chain[chain].Mine(n)
	w.Notify(chain, tip)
}

func (w *World) Notify(chain string, tip uint32) {
	if rw := w.Rpc[chain]; rw != nil {
		if w.Cfg.RealLoops {
			return // the real poll loop picks the new height up
		}
		// the body of the dispatcher loop of StartWatchingTxs for one new block
		rw.VerifDispatchHeight(uint64(tip), 0)
		rw.HandleCsvTx(uint64(tip))
		return
	}
	// the watcher goroutine takes one header at a time: a header it can not take now is dropped
	h := &goelectrum.SubscribeHeadersResult{Height: int32(tip)}
	deadline := time.Now().Add(20 * time.Millisecond)
	for {
		select {
		case w.Chain[chain].headers() <- h:
			return
		default:
		}
		if time.Now().After(deadline) {
			return
		}
		runtime.Gosched()
	}
}

// Timers returns the ids of the armed, not cancelled timers.
func (w *World) PopTimer(id string) func() {
	w.tmu.Lock()
	defer w.tmu.Unlock()
	for i, t := range w.timers {
		if t.id == id && t.ctx.Err() == nil {
			w.timers = append(w.timers[:i], w.timers[i+1:]...)
			return w.Svc.VerifTimeoutCallback(id)
		}
	}
	return nil
}

func (w *World) Close() {
	if w.cancel != nil {
		w.cancel()
	}
	w.db.Close()
	w.pdb.Close()
	os.RemoveAll(w.Dir)
}

// State returns the persisted state of a swap (read from bbolt, not from the
// in-memory state machine, so that the harness itself adds no unsynchronised read).
func (w *World) State(id string) string {
	st, err := swap.NewBboltStore(w.db)
	if err != nil {
		return "?"
	}
	sm, err := st.GetData(id)
	if err != nil {
		return "none"
	}
	return string(sm.Current)
}
