package locks

import (
	"encoding/hex"
	"encoding/json"
	"errors"
	"fmt"
	"strconv"
	"sync/atomic"

	"github.com/btcsuite/btcd/btcec/v2"
	"github.com/elementsproject/peerswap/messages"
	"github.com/elementsproject/peerswap/swap"
)

// Swap is what the simulated peer knows about one swap of the node under test.
type Swap struct {
	ID      string
	sid     *swap.SwapId
	Role    string // in_sender | out_receiver (maker) | out_sender | in_receiver (taker)
	Chain   string
	Scid    string
	Amount  uint64
	PeerKey *btcec.PrivateKey
	MePub   string
	Otb     *swap.OpeningTxBroadcastedMessage
}

func (s *Swap) Maker() bool { return s.Role == "in_sender" || s.Role == "out_receiver" }
func (s *Swap) peerPub() string {
	return hex.EncodeToString(s.PeerKey.PubKey().SerializeCompressed())
}

var scidCtr atomic.Int64

func nextScid() string { return fmt.Sprintf("%dx1x1", 100+scidCtr.Add(1)) }

func typeHex(t messages.MessageType) string { return strconv.FormatInt(int64(t), 16) }

// Deliver hands a peer message to the node's message handler (entry point OnMessageReceived).
func (w *World) Deliver(from string, msg swap.PeerMessage) error {
	b, t, err := swap.MarshalPeerswapMessage(msg)
	if err != nil {
		return err
	}
	w.Msgr.mu.RLock()
	h := w.Msgr.handler
	w.Msgr.mu.RUnlock()
	return h(from, typeHex(messages.MessageType(t)), b)
}

func (w *World) assetNet(chain string) (string, string) {
	if chain == "lbtc" {
		return LiquidAsset, ""
	}
	return "", BtcNetwork
}

// Prepare drives a fresh swap of the given role to the given stage with the
// simulated peer behaving honestly. Stages:
//   maker:  "await_fee" (out_receiver only) | "await_agreement" (in_sender only) | "await_claim" | "wait_csv"
//   taker:  "await_agreement" (out_sender only) | "await_opening" | "await_conf"
func (w *World) Prepare(role, chain, stage string) (*Swap, error) {
	return w.PrepareWith(Peer, role, chain, stage)
}

// PrepareWith: the same with another counterparty (new swaps that run next to the
// swap under test use a third node, so that the peer's standing does not matter).
func (w *World) PrepareWith(Peer, role, chain, stage string) (*Swap, error) {
	k, _ := btcec.NewPrivateKey()
	s := &Swap{Role: role, Chain: chain, Scid: nextScid(), Amount: 1000000, PeerKey: k}
	asset, net := w.assetNet(chain)
	switch role {
	case "in_sender":
		sm, err := w.Svc.SwapIn(Peer, chain, s.Scid, Me, s.Amount, 20000)
		if err != nil {
			return nil, err
		}
		s.sid, s.ID = sm.SwapId, sm.SwapId.String()
		if stage == "await_agreement" {
			return s, nil
		}
		if err := w.Deliver(Peer, &swap.SwapInAgreementMessage{ProtocolVersion: swap.PEERSWAP_PROTOCOL_VERSION, SwapId: s.sid, Pubkey: s.peerPub(), Premium: 100}); err != nil {
			return nil, err
		}
	case "out_receiver":
		s.sid = swap.NewSwapId()
		s.ID = s.sid.String()
		if err := w.Deliver(Peer, &swap.SwapOutRequestMessage{ProtocolVersion: swap.PEERSWAP_PROTOCOL_VERSION, SwapId: s.sid, Asset: asset, Network: net,
			Scid: s.Scid, Amount: s.Amount, Pubkey: s.peerPub(), PremiumLimit: 100000}); err != nil {
			return nil, err
		}
		if stage == "await_fee" {
			return s, nil
		}
		if !w.LN.PeerPays(s.ID, swap.INVOICE_FEE) {
			return nil, errors.New("prepare: no fee invoice notifier")
		}
	case "out_sender":
		sm, err := w.Svc.SwapOut(Peer, chain, s.Scid, Me, s.Amount, 20000)
		if err != nil {
			return nil, err
		}
		s.sid, s.ID = sm.SwapId, sm.SwapId.String()
		if stage == "await_agreement" {
			return s, nil
		}
		fee := newPeerInvoice("fee", s.ID, 1000000, 0)
		if err := w.Deliver(Peer, &swap.SwapOutAgreementMessage{ProtocolVersion: swap.PEERSWAP_PROTOCOL_VERSION, SwapId: s.sid, Pubkey: s.peerPub(), Payreq: fee.Payreq(), Premium: 100}); err != nil {
			return nil, err
		}
	case "in_receiver":
		s.sid = swap.NewSwapId()
		s.ID = s.sid.String()
		if err := w.Deliver(Peer, &swap.SwapInRequestMessage{ProtocolVersion: swap.PEERSWAP_PROTOCOL_VERSION, SwapId: s.sid, Asset: asset, Network: net,
			Scid: s.Scid, Amount: s.Amount, Pubkey: s.peerPub(), PremiumLimit: 100000}); err != nil {
			return nil, err
		}
	default:
		return nil, fmt.Errorf("unknown role %q", role)
	}
	if s.Maker() {
		if stage == "wait_csv" {
			if err := w.Deliver(Peer, s.Cancel()); err != nil {
				return nil, err
			}
		}
		if m := w.Msgr.last(messages.MESSAGETYPE_OPENINGTXBROADCASTED); m != nil {
			json.Unmarshal(m.Payload, &s.Otb)
		}
		if s.Otb == nil {
			return nil, errors.New("prepare: maker did not announce an opening transaction")
		}
		return s, nil
	}
	w.PeerOpening(s) // the simulated maker broadcasts; the announcement is in s.Otb
	if stage == "await_opening" {
		return s, nil
	}
	if err := w.Deliver(Peer, s.Otb); err != nil {
		return nil, err
	}
	return s, nil
}

// PeerOpening lets the simulated maker broadcast an opening transaction and
// returns its announcement.
func (w *World) PeerOpening(s *Swap) *swap.OpeningTxBroadcastedMessage {
	// the taker's key is in the agreement / request the node sent
	var mePub string
	if s.Role == "out_sender" {
		if m := w.Msgr.last(messages.MESSAGETYPE_SWAPOUTREQUEST); m != nil {
			var r swap.SwapOutRequestMessage
			json.Unmarshal(m.Payload, &r)
			mePub = r.Pubkey
		}
	} else {
		if m := w.Msgr.last(messages.MESSAGETYPE_SWAPINAGREEMENT); m != nil {
			var r swap.SwapInAgreementMessage
			json.Unmarshal(m.Payload, &r)
			mePub = r.Pubkey
		}
	}
	s.MePub = mePub
	cltv := int64(100)
	csv := uint32(1008)
	if s.Chain == "lbtc" {
		cltv, csv = 20, 10080
	}
	claimMsat := s.Amount * 1000
	if s.Role == "out_sender" {
		claimMsat = (s.Amount + 100) * 1000 // swap-out: the claim invoice covers amount + premium
	}
	inv := newPeerInvoice("claim", s.ID, claimMsat, cltv)
	p := &swap.OpeningParams{TakerPubkey: mePub, MakerPubkey: s.peerPub(), ClaimPaymentHash: inv.Hash, Amount: s.Amount, CSV: csv}
	tx := newOpeningTx(p)
	w.Chain[s.Chain].Add(tx)
	bk := ""
	if s.Chain == "lbtc" {
		bk = randHex(32)
	}
	s.Otb = &swap.OpeningTxBroadcastedMessage{SwapId: s.sid, Payreq: inv.Payreq(), TxId: tx.ID, ScriptOut: 0, BlindingKey: bk}
	return s.Otb
}

func (s *Swap) Cancel() *swap.CancelMessage {
	return &swap.CancelMessage{SwapId: s.sid, Message: "peer cancels"}
}

// CoopClose: the taker hands over its key (valid=false: malformed key -> invalid message).
func (s *Swap) CoopClose(valid bool) *swap.CoopCloseMessage {
	k := hex.EncodeToString(s.PeerKey.Serialize())
	if !valid {
		k = "zz"
	}
	return &swap.CoopCloseMessage{SwapId: s.sid, Message: "peer gives up", Privkey: k}
}

// Mature mines blocks so that the opening output of the swap has the given depth class:
// "not": a few confirmations, "edge": one block below the CSV, "long": CSV + 5.
func (w *World) Mature(s *Swap, class string) {
	csv := uint32(1008)
	if s.Chain == "lbtc" {
		csv = 10080
	}
	c := w.Chain[s.Chain]
	switch class {
	case "not":
		c.Mine(3)
	case "edge":
		c.Mine(csv - 1)
	case "long":
		c.Mine(csv + 5)
	case "conf": // taker: the opening transaction is confirmed deeply enough
		c.Mine(3)
	}
}
