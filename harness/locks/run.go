package locks

import (
	"fmt"
	"math/rand"
	"os"
	"path/filepath"
	"sort"
	"strings"
	"time"

	"github.com/elementsproject/peerswap/swap"
	"verif/harness/ndj"
)

// Schedule is one deterministic run: a prepared swap, a chain state, and a
// sequence of macro steps ("advance process p to its next gate").
type Schedule struct {
	Name    string            `json:"name"`
	Watcher string            `json:"watcher"` // rpc | el   (watcher implementation under the swap's chain)
	Chain   string            `json:"chain"`   // btc | lbtc (derived from watcher if empty)
	Role    string            `json:"role"`
	Stage   string            `json:"stage"`
	Csv     string            `json:"csv"`     // not | edge | long  (depth of the opening output before the steps)
	Restart bool              `json:"restart"` // restart the node (fresh services, nothing recovered yet) before the steps
	Faults  []string          `json:"faults"`
	Procs   map[string]string `json:"procs"` // process name -> entry point
	Steps   []string          `json:"steps"` // process names; "E" = environment mines Mine blocks
	Mine    uint32            `json:"mine"`  // blocks per "E" step (default 1)
	Expect  bool              `json:"deadlock"` // the model predicts a deadlock for this schedule
	Class   string            `json:"class"` // model class this schedule was exported for
	Model   map[string]any    `json:"model"` // the configuration of Locks.tla this schedule belongs to (copied into the trace)
}

// Entry runs one entry point of the node for swap s.
func (w *World) Entry(e string, s *Swap) string {
	errs := func(err error) string {
		if err == nil {
			return "ok"
		}
		return "err"
	}
	switch e {
	case "msg_cancel":
		return errs(w.Deliver(Peer, s.Cancel()))
	case "msg_coop":
		return errs(w.Deliver(Peer, s.CoopClose(true)))
	case "msg_coop_bad":
		return errs(w.Deliver(Peer, s.CoopClose(false)))
	case "msg_opening":
		return errs(w.Deliver(Peer, s.Otb))
	case "msg_agreement":
		if s.Role == "in_sender" {
			return errs(w.Deliver(Peer, &swap.SwapInAgreementMessage{ProtocolVersion: swap.PEERSWAP_PROTOCOL_VERSION, SwapId: s.sid, Pubkey: s.peerPub(), Premium: 100}))
		}
		fee := newPeerInvoice("fee", s.ID, 1000000, 0)
		return errs(w.Deliver(Peer, &swap.SwapOutAgreementMessage{ProtocolVersion: swap.PEERSWAP_PROTOCOL_VERSION, SwapId: s.sid, Pubkey: s.peerPub(), Payreq: fee.Payreq(), Premium: 100}))
	case "msg_req_in", "msg_req_out":
		role := map[string]string{"msg_req_in": "in_receiver", "msg_req_out": "out_receiver"}[e]
		stage := map[string]string{"msg_req_in": "await_opening", "msg_req_out": "await_fee"}[e]
		_, err := w.PrepareWith(Third, role, s.Chain, stage)
		return errs(err)
	case "pay_claim":
		if w.LN.PeerPays(s.ID, swap.INVOICE_CLAIM) {
			return "ok"
		}
		return "noop"
	case "pay_fee":
		if w.LN.PeerPays(s.ID, swap.INVOICE_FEE) {
			return "ok"
		}
		return "noop"
	case "timeout":
		if f := w.PopTimer(s.ID); f != nil {
			f()
			return "ok"
		}
		return "noop"
	case "blk":
		w.Block(s.Chain, 1)
		return "ok"
	case "notify": // the watcher learns about the current tip (no mining)
		w.Notify(s.Chain, w.Chain[s.Chain].tip())
		return "ok"
	case "notify_obs": // the dispatcher offers the current tip to the confirmation observers
		tip := w.Chain[s.Chain].tip()
		if rw := w.Rpc[s.Chain]; rw != nil {
			if rw.VerifDispatchHeight(uint64(tip), 50*time.Millisecond) == 0 {
				return "noop"
			}
			return "ok"
		}
		w.Notify(s.Chain, tip)
		return "ok"
	case "blk_obs": // deliver the current height to the swap's confirmation observer (RPC watcher)
		tip := w.Chain[s.Chain].Mine(1)
		if rw := w.Rpc[s.Chain]; rw != nil {
			if !w.Cfg.RealLoops {
				if !rw.VerifDeliverHeight(s.ID, tip) {
					return "noop"
				}
			}
			return "ok"
		}
		w.Notify(s.Chain, tip)
		return "ok"
	case "rpc_swapout":
		_, err := w.Svc.SwapOut(Third, s.Chain, nextScid(), Me, 1000000, 20000)
		return errs(err)
	case "rpc_swapin":
		_, err := w.Svc.SwapIn(Third, s.Chain, nextScid(), Me, 1000000, 20000)
		return errs(err)
	case "rpc_resend":
		return errs(w.Svc.ResendLastMessage(s.ID))
	case "rpc_list":
		w.Svc.ListSwaps()
		w.Svc.ListActiveSwaps()
		w.Svc.GetSwap(s.ID)
		w.Svc.ListSwapsByPeer(Peer)
		w.Svc.HasActiveSwaps()
		return "ok"
	case "pol_disable":
		return errs(w.Pol.DisableSwaps())
	case "pol_enable":
		return errs(w.Pol.EnableSwaps())
	case "pol_allow":
		return errs(w.Pol.AddToAllowlist(Third))
	case "pol_disallow":
		return errs(w.Pol.RemoveFromAllowlist(Third))
	case "pol_suspect":
		return errs(w.Pol.AddToSuspiciousPeerList(Third))
	case "pol_unsuspect":
		return errs(w.Pol.RemoveFromSuspiciousPeerList(Third))
	case "pol_reload":
		return errs(w.Pol.ReloadFile())
	case "pol_get":
		p := w.Pol.Get()
		_ = p.String()
		w.Pol.GetMinSwapAmountMsat()
		w.Pol.IsPeerAllowed(Peer)
		w.Pol.IsPeerSuspicious(Peer)
		w.Pol.NewSwapsAllowed()
		return "ok"
	case "recover":
		return errs(w.Svc.RecoverSwaps())
	}
	return "unknown"
}

func chainOf(watcher, chain string) (string, Cfg) {
	switch watcher {
	case "el":
		return "lbtc", Cfg{LbtcWatcher: "el"}
	case "rpc-lbtc":
		return "lbtc", Cfg{LbtcWatcher: "rpc"}
	}
	if chain == "" {
		chain = "btc"
	}
	return chain, Cfg{LbtcWatcher: "el"}
}

func lockWait(st string) bool {
	return strings.HasPrefix(st, "sync.") || st == "semacquire" || st == "chan send"
}

// RunSchedule executes one deterministic schedule in a fresh world and writes its trace.
// It returns true if the run ended in a deadlock (the process is then poisoned:
// goroutines of the real code are blocked forever and may hold package-level locks).
func RunSchedule(t int, sc *Schedule, out *ndj.Writer, workdir string, grace time.Duration) (deadlock bool, err error) {
	ctl := NewCtl(t, out, true)
	ctl.free = true // preparation runs without parking
	chain, cfg := chainOf(sc.Watcher, sc.Chain)
	w, err := NewWorld(ctl, filepath.Join(workdir, fmt.Sprintf("w%d", t)), cfg)
	if err != nil {
		return false, err
	}
	swap.VerifSetTiming(true, 50*time.Millisecond, time.Millisecond, time.Hour)
	swap.VerifSetTiming(true, time.Hour, time.Millisecond, time.Hour) // a goroutine parked inside the pay loop must not run into its deadline
	ctl.byGoid[ctl.self] = &Proc{Name: "drv"}
	s, err := w.Prepare(sc.Role, chain, sc.Stage)
	if err != nil {
		return false, fmt.Errorf("prepare %s/%s/%s: %w", sc.Role, chain, sc.Stage, err)
	}
	w.Mature(s, sc.Csv)
	if sc.Restart {
		if err := w.StartNode(false); err != nil {
			return false, err
		}
	}
	for _, f := range sc.Faults {
		w.SetFault(f, true)
	}
	if ok, _ := ctl.Settle(20 * time.Second); !ok {
		return false, fmt.Errorf("preparation does not settle")
	}
	pre := w.State(s.ID)
	ctl.mu.Lock()
	ctl.free = false
	ctl.occ = map[string]int{}
	ctl.mu.Unlock()
	ctl.Emit("reset", Ev{"name": sc.Name, "class": sc.Class, "watcher": sc.Watcher, "role": sc.Role, "stage": sc.Stage, "csv": sc.Csv,
		"restart": sc.Restart, "faults": append([]string{}, sc.Faults...), "procs": sc.Procs, "state": pre, "expect": sc.Expect, "steps": sc.Steps, "model": sc.Model})
	unsettled := false
	step := func(i int, pn string) bool {
		obs := Ev{"i": i, "p": pn}
		if pn == "E" {
			n := sc.Mine
			if n == 0 {
				n = 1
			}
			w.Chain[chain].Mine(n)
			obs["st"] = "env"
			ctl.Emit("step", obs)
			return true
		}
		ctl.Emit("step", Ev{"i": i, "p": pn})
		ctl.mu.Lock()
		_, known := ctl.Procs[pn]
		ctl.mu.Unlock()
		entry, isDriver := sc.Procs[pn]
		switch {
		case isDriver && !known:
			e := entry
			ctl.Go(pn, e, func() string { return w.Entry(e, s) })
		default:
			if !ctl.Release(pn) {
				obs["noop"] = true
			}
		}
		ok, gs := ctl.Settle(20 * time.Second)
		if !ok {
			return false
		}
		switch {
		case isDriver && ctl.Done(pn):
			obs["st"] = "done"
		case ctl.ParkedAt(pn) != "":
			obs["st"] = "gate"
			obs["g"] = ctl.ParkedAt(pn)
		default:
			obs["st"] = "blocked"
		}
		obs["all"] = ctl.statusAll(gs)
		ctl.Emit("after", obs)
		return true
	}
	n := 0
	for _, pn := range sc.Steps {
		n++
		if !step(n, pn) {
			unsettled = true
			break
		}
	}
	// the run is completed under gate control as well: whoever is still parked
	// (the Go scheduler may have resolved a lock hand-over differently from the
	// exported schedule) is advanced, in a fixed order, until nobody is parked.
	for !unsettled && n < len(sc.Steps)+400 {
		ctl.mu.Lock()
		var parked []string
		for pn := range ctl.at {
			parked = append(parked, pn)
		}
		ctl.mu.Unlock()
		if len(parked) == 0 {
			break
		}
		sort.Strings(parked)
		n++
		if !step(n, parked[0]) {
			unsettled = true
		}
	}
	// end of schedule: everything may run; whoever has not returned when the
	// system is quiet again is blocked forever.
	ctl.ReleaseAll()
	ok, gs := ctl.Settle(30 * time.Second)
	if !ok || unsettled {
		ctl.Emit("end", Ev{"unsettled": true, "state": w.State(s.ID)})
		return true, nil
	}
	bl := ctl.stuck(gs)
	if len(bl) > 0 {
		time.Sleep(grace)
		_, gs2 := ctl.Settle(30 * time.Second)
		bl2 := ctl.stuck(gs2)
		if allOf(bl) != allOf(bl2) {
			ctl.Emit("end", Ev{"unsettled": true, "state": w.State(s.ID), "note": "blocked set changed during grace period"})
			return true, nil
		}
		ctl.Emit("deadlock", Ev{"blocked": bl, "state": w.State(s.ID), "pre": pre, "grace_ms": grace.Milliseconds(), "sig": sigOf(bl)})
		ctl.Emit("end", Ev{"unsettled": false, "state": w.State(s.ID), "unreturned": len(bl)})
		return true, nil
	}
	ctl.Emit("end", Ev{"unsettled": false, "state": w.State(s.ID), "unreturned": 0})
	w.Close()
	return false, nil
}

// stuck: driver processes that have not returned, plus goroutines of the real
// code (watcher loops, callbacks) that wait for a lock.
func (c *Ctl) stuck(gs []G) []Blocked {
	out := c.unreturned(gs)
	seen := map[int64]bool{}
	c.mu.Lock()
	for _, p := range c.Procs {
		seen[p.goid] = true
	}
	c.mu.Unlock()
	for i := range gs {
		g := &gs[i]
		if seen[g.ID] || g.ID == c.self || !g.has(peerswapPkg) || !lockWait(g.State) {
			continue
		}
		fr := g.PeerswapFrames()
		if len(fr) > 12 {
			fr = fr[:12]
		}
		var m []string
		for i, f := range fr {
			if i >= 3 {
				break
			}
			m = append(m, method(f))
		}
		out = append(out, Blocked{P: c.bgNameL(g.Raw), Entry: c.bgNameL(g.Raw), State: g.State, Frames: fr, At: g.State + "@" + strings.Join(m, "<")})
	}
	sort.Slice(out, func(i, j int) bool { return out[i].Entry+out[i].At < out[j].Entry+out[j].At })
	return out
}

// holders: functions of the real code that keep a lock while calling out. A
// blocked goroutine with such a frame below its wait site is part of the
// deadlock itself; the others merely queue behind it.
var holders = []string{").SendEvent", ").HandleCsvTx", "liquidBlockHeaderSubscriber).Update", ").AddWaitForConfirmationTx"}

func (b *Blocked) holds() bool {
	// the kick-off send of AddWaitForConfirmationTx is made with the watcher lock held
	if b.State == "chan send" && len(b.Frames) > 0 && strings.HasSuffix(b.Frames[0], ").AddWaitForConfirmationTx") {
		return true
	}
	for i, f := range b.Frames {
		if i == 0 {
			continue
		}
		for _, h := range holders {
			if strings.HasSuffix(f, h) {
				return true
			}
		}
	}
	return false
}

// sigOf: the deadlock's signature = entry point and wait site of the goroutines
// that hold a lock while waiting (all blocked ones if none is recognised).
var entryAlias = map[string]string{"blk": "notify", "disp": "notify", "blk_obs": "notify_obs"}

func (b *Blocked) name() string {
	if a, ok := entryAlias[b.Entry]; ok {
		return a
	}
	if strings.HasPrefix(b.Entry, "acb") {
		return "acb"
	}
	return b.Entry
}

// selfCycle: the goroutine waits for the swap mutex inside SendEvent while an
// outer SendEvent of the same goroutine holds it.
func (b *Blocked) selfCycle() bool {
	if len(b.Frames) == 0 || !strings.HasSuffix(b.Frames[0], ").SendEvent") {
		return false
	}
	inAction := false // the outer SendEvent holds the mutex only while it runs an action
	for _, f := range b.Frames[1:] {
		if strings.HasSuffix(f, ".Execute") {
			inAction = true
		}
		if strings.HasSuffix(f, ").SendEvent") {
			return inAction
		}
	}
	return false
}

// queued: the expected way of waiting behind a deadlocked swap: at the entry of
// its state machine (the swap mutex), or RecoverSwaps waiting for its goroutines.
func (b *Blocked) queued() bool {
	return (len(b.Frames) > 0 && strings.HasSuffix(b.Frames[0], ").SendEvent")) || strings.HasPrefix(b.At, "semacquire@RecoverSwaps")
}

// sigOf: the deadlock's signature = entry point and wait site of the goroutines
// that form it (self cycle, else those that hold a lock while waiting, else all
// blocked ones), plus every other goroutine that is blocked somewhere else than
// in the queue of the deadlocked swap.
func sigOf(bl []Blocked) string {
	var parts []string
	core := map[int]bool{}
	for i, b := range bl {
		if b.selfCycle() {
			parts = append(parts, b.name()+":"+b.At)
			core[i] = true
		}
	}
	if len(parts) == 0 {
		for i, b := range bl {
			if b.holds() {
				parts = append(parts, b.name()+":"+b.At)
				core[i] = true
			}
		}
	}
	if len(parts) == 0 {
		for i, b := range bl {
			parts = append(parts, b.name()+":"+b.At)
			core[i] = true
		}
	}
	sort.Strings(parts)
	sig := strings.Join(parts, "+")
	seen := map[string]bool{}
	var also []string
	for i, b := range bl {
		x := b.name() + ":" + b.At
		if core[i] || b.queued() || seen[x] {
			continue
		}
		seen[x] = true
		also = append(also, x)
	}
	if len(also) > 0 {
		sort.Strings(also)
		sig += "|also:" + strings.Join(also, "+")
	}
	return sig
}

// ---- stress mode ------------------------------------------------------------------

// Variant: where an entry point is meaningful.
type Variant struct{ Role, Stage string }

var makerClaim = []Variant{{"in_sender", "await_claim"}, {"out_receiver", "await_claim"}}
var makerAny = []Variant{{"in_sender", "await_claim"}, {"out_receiver", "await_claim"}, {"in_sender", "wait_csv"}, {"out_receiver", "wait_csv"}}
var takerConf = []Variant{{"out_sender", "await_conf"}, {"in_receiver", "await_conf"}}
var takerOpen = []Variant{{"out_sender", "await_opening"}, {"in_receiver", "await_opening"}}
var anyV = append(append(append([]Variant{}, makerAny...), takerConf...), takerOpen...)

// Applicable lists the (role, stage) variants in which an entry point does something.
var Applicable = map[string][]Variant{
	"msg_cancel":    append(append(append([]Variant{}, makerClaim...), takerOpen...), Variant{"in_receiver", "await_conf"}, Variant{"in_sender", "await_agreement"}, Variant{"out_receiver", "await_fee"}),
	"msg_coop":      makerAny,
	"msg_coop_bad":  makerClaim,
	"msg_opening":   takerOpen,
	"msg_agreement": {{"in_sender", "await_agreement"}, {"out_sender", "await_agreement"}},
	"msg_req_in":    anyV,
	"msg_req_out":   anyV,
	"pay_claim":     makerClaim,
	"pay_fee":       {{"out_receiver", "await_fee"}},
	"timeout":       {{"in_sender", "await_agreement"}, {"out_sender", "await_agreement"}, {"out_receiver", "await_fee"}, {"in_receiver", "await_opening"}},
	"blk":           makerAny,
	"blk_obs":       takerConf,
	"rpc_swapout":   anyV,
	"rpc_swapin":    anyV,
	"rpc_resend":    anyV,
	"rpc_list":      anyV,
	"pol_disable":   anyV,
	"pol_enable":    anyV,
	"pol_allow":     anyV,
	"pol_suspect":   anyV,
	"pol_disallow":  anyV,
	"pol_unsuspect": anyV,
	"pol_reload":    anyV,
	"pol_get":       anyV,
	"recover":       anyV,
}

func common(a, b []Variant) []Variant {
	var out []Variant
	for _, x := range a {
		for _, y := range b {
			if x == y {
				out = append(out, x)
			}
		}
	}
	return out
}

// StressCase is one concurrent run of entry points on one prepared swap.
type StressCase struct {
	Name    string   `json:"name"`
	Watcher string   `json:"watcher"`
	Role    string   `json:"role"`
	Stage   string   `json:"stage"`
	Csv     string   `json:"csv"`
	Restart bool     `json:"restart"`
	Entries []string `json:"entries"`
	Delays  []int    `json:"delays"` // start delay of each entry in microseconds
	Real    bool     `json:"real"`   // real polling loops of the RPC watcher
	Faults  []string `json:"faults"`
	LatUs   int      `json:"lat_us"`   // latency of the simulated chain servers (see Ctl)
	LongPct int      `json:"long_pct"`
	LongMs  int      `json:"long_ms"`
}

// RunStress runs one case with free-running goroutines; the watchdog reports
// entry points that do not return.
func RunStress(t int, sc *StressCase, out *ndj.Writer, workdir string, watchdog, grace time.Duration) (deadlock bool, err error) {
	ctl := NewCtl(t, out, false)
	chain, cfg := chainOf(sc.Watcher, "")
	cfg.RealLoops = sc.Real
	w, err := NewWorld(ctl, filepath.Join(workdir, fmt.Sprintf("s%d", t)), cfg)
	if err != nil {
		return false, err
	}
	swap.VerifSetTiming(true, 50*time.Millisecond, time.Millisecond, time.Hour)
	s, err := w.Prepare(sc.Role, chain, sc.Stage)
	if err != nil {
		return false, fmt.Errorf("prepare %s/%s/%s: %w", sc.Role, chain, sc.Stage, err)
	}
	w.Mature(s, sc.Csv)
	if sc.Restart {
		if err := w.StartNode(false); err != nil {
			return false, err
		}
	}
	for _, f := range sc.Faults {
		w.SetFault(f, true)
	}
	ctl.LongPct.Store(int32(sc.LongPct)) // preparation ran without latency
	ctl.LongMs.Store(int32(sc.LongMs + 1))
	ctl.LatUs.Store(int32(sc.LatUs))
	ctl.Emit("reset", Ev{"name": sc.Name, "mode": "stress", "watcher": sc.Watcher, "role": sc.Role, "stage": sc.Stage, "csv": sc.Csv, "restart": sc.Restart, "entries": sc.Entries})
	start := make(chan struct{})
	for i, e := range sc.Entries {
		e := e
		d := time.Duration(0)
		if i < len(sc.Delays) {
			d = time.Duration(sc.Delays[i]) * time.Microsecond
		}
		pn := string(rune('A' + i))
		ctl.Go(pn, e, func() string {
			<-start
			if d > 0 {
				time.Sleep(d)
			}
			return w.Entry(e, s)
		})
	}
	close(start)
	deadline := time.Now().Add(watchdog)
	for {
		all := true
		for i := range sc.Entries {
			if !ctl.Done(string(rune('A' + i))) {
				all = false
			}
		}
		if all {
			break
		}
		if time.Now().After(deadline) {
			_, gs := ctl.Settle(5 * time.Second)
			bl := ctl.stuck(gs)
			time.Sleep(grace)
			_, gs2 := ctl.Settle(5 * time.Second)
			bl2 := ctl.stuck(gs2)
			if len(bl) > 0 && allOf(bl) == allOf(bl2) {
				ctl.Emit("deadlock", Ev{"blocked": bl, "state": w.State(s.ID), "grace_ms": grace.Milliseconds(), "sig": sigOf(bl)})
				ctl.Emit("end", Ev{"unsettled": false, "unreturned": len(bl)})
			} else {
				ctl.Emit("end", Ev{"unsettled": true})
			}
			return true, nil
		}
		time.Sleep(50 * time.Microsecond)
	}
	// real loops: let the poll / dispatcher goroutines see the registrations, a confirming block and a later block
	if sc.Real {
		time.Sleep(650 * time.Millisecond)
		w.Chain[chain].Mine(3)
		time.Sleep(650 * time.Millisecond)
		w.Chain[chain].Mine(1)
		time.Sleep(650 * time.Millisecond)
	}
	ctl.Emit("end", Ev{"unsettled": false, "unreturned": 0})
	w.Close()
	return false, nil
}

// GenStress generates the stress cases of one run from the seed: every
// unordered pair of entry points on a common variant, plus triples with a block.
func GenStress(seed int64, rounds int, entries []string) []*StressCase {
	rng := rand.New(rand.NewSource(seed))
	var out []*StressCase
	watchers := []string{"rpc", "el", "rpc-lbtc"}
	csvs := []string{"not", "edge", "long"}
	for r := 0; r < rounds; r++ {
		for i := 0; i < len(entries); i++ {
			for j := i; j < len(entries); j++ {
				e1, e2 := entries[i], entries[j]
				vs := common(Applicable[e1], Applicable[e2])
				if len(vs) == 0 {
					continue
				}
				v := vs[rng.Intn(len(vs))]
				c := &StressCase{Watcher: watchers[rng.Intn(len(watchers))], Role: v.Role, Stage: v.Stage, Csv: "not", Entries: []string{e1, e2},
					Delays: []int{rng.Intn(3) * rng.Intn(150), rng.Intn(3) * rng.Intn(150)}}
				if e1 == "recover" || e2 == "recover" {
					c.Restart = true
				}
				if v.Stage == "await_claim" || v.Stage == "wait_csv" {
					c.Csv = csvs[rng.Intn(3)]
					// the known self-deadlock (C18) would end every such case early: stress the races on the "not"/"edge" side mostly
					if c.Csv == "long" && rng.Intn(4) != 0 {
						c.Csv = "edge"
					}
				}
				if rng.Intn(5) == 0 {
					c.Entries = append(c.Entries, []string{"blk", "rpc_list", "pol_get", "rpc_resend"}[rng.Intn(4)])
					c.Delays = append(c.Delays, rng.Intn(200))
				}
				// the RPC watcher's own polling and dispatcher goroutines (500 ms cadence) in a part of the block / confirmation cases
				if c.Watcher != "el" && (e1 == "msg_opening" || e2 == "msg_opening" || e1 == "blk_obs" || e2 == "blk_obs" || e1 == "blk" || e2 == "blk") && rng.Intn(3) == 0 {
					c.Real = true
				}
				c.Name = fmt.Sprintf("r%d/%s+%s/%s/%s/%s/%s", r, e1, e2, c.Watcher, v.Role, v.Stage, c.Csv)
				out = append(out, c)
			}
		}
	}
	// Focus: a block notification (HandleCsvTx / Update, the dispatcher) against a handler that reaches the
	// watcher's registries (AddWaitForCsvTx -> addCsvTx, TxClaimed, AddWaitForConfirmationTx, Register), with a
	// CSV watch already registered, repeatedly and with different latencies of the chain servers.
	for r := 0; r < rounds; r++ {
		for k := 0; k < 36; k++ {
			role := []string{"in_sender", "out_receiver"}[rng.Intn(2)]
			c := &StressCase{Watcher: []string{"rpc", "rpc-lbtc", "rpc", "el"}[k%4], Role: role, Csv: []string{"not", "edge"}[rng.Intn(2)]}
			switch k % 3 {
			case 0:
				c.Stage, c.Entries = "await_claim", []string{"blk", "msg_cancel"}
			case 1:
				c.Stage, c.Entries = "await_claim", []string{"blk", "msg_coop_bad"}
			default:
				c.Stage, c.Entries, c.Faults = "wait_csv", []string{"blk", "msg_coop"}, []string{"wallet.coop"}
			}
			c.Delays = []int{rng.Intn(2) * rng.Intn(2000), rng.Intn(3) * rng.Intn(1500)}
			if rng.Intn(3) == 0 {
				c.Entries = append(c.Entries, "blk")
				c.Delays = append(c.Delays, 1000+rng.Intn(8000))
			}
			c.Name = fmt.Sprintf("r%d/focus%d/%s/%s/%s/%s/%s", r, k, strings.Join(c.Entries, "+"), c.Watcher, c.Role, c.Stage, c.Csv)
			out = append(out, c)
		}
		for k := 0; k < 4; k++ {
			role := []string{"out_sender", "in_receiver"}[k%2]
			c := &StressCase{Watcher: []string{"rpc", "rpc-lbtc"}[(k/2)%2], Role: role, Stage: "await_opening", Csv: "not",
				Entries: []string{"msg_opening", "blk_obs"}, Delays: []int{rng.Intn(500), rng.Intn(3000)}, Real: true}
			c.Name = fmt.Sprintf("r%d/focus-conf%d/%s/%s", r, k, c.Watcher, role)
			out = append(out, c)
		}
	}
	// latency profile of the simulated chain servers, per case
	for _, c := range out {
		c.LatUs = []int{500, 2000, 4000}[rng.Intn(3)]
		c.LongPct = []int{0, 10, 25}[rng.Intn(3)]
		c.LongMs = 10 + rng.Intn(30)
		if strings.Contains(c.Name, "/focus") { // a slow node: the block handler's RPC often outlasts the message handler
			c.LatUs, c.LongPct, c.LongMs = 3000, 40, 20+rng.Intn(20)
		}
	}
	rng.Shuffle(len(out), func(i, j int) { out[i], out[j] = out[j], out[i] })
	return out
}

var _ = os.Getenv

// StressEntries: the entry points exercised pairwise in stress mode.
var StressEntries = []string{"msg_cancel", "msg_coop", "msg_coop_bad", "msg_opening", "msg_agreement", "msg_req_in", "msg_req_out",
	"pay_claim", "pay_fee", "timeout", "blk", "blk_obs", "rpc_swapout", "rpc_swapin", "rpc_resend", "rpc_list",
	"pol_disable", "pol_enable", "pol_allow", "pol_disallow", "pol_suspect", "pol_unsuspect", "pol_reload", "pol_get", "recover"}

func gs0(c *Ctl) []G { _, gs := c.Settle(20 * time.Second); return gs }

// statusAll: where every process of the system under test stands after a
// settled step: "gate:<name>", "blocked", "idle", "done".
func (c *Ctl) statusAll(gs []G) map[string]string {
	out := map[string]string{}
	c.mu.Lock()
	ids := map[int64]string{}
	for n, p := range c.Procs {
		if p.done {
			out[n] = "done"
		} else if c.at[n] != "" {
			out[n] = "gate:" + c.at[n]
		} else {
			out[n] = "blocked"
		}
		ids[p.goid] = n
	}
	for n, g := range c.at {
		if _, ok := out[n]; !ok {
			out[n] = "gate:" + g
		}
	}
	c.mu.Unlock()
	for i := range gs {
		g := &gs[i]
		if _, drv := ids[g.ID]; drv || g.ID == c.self || !g.has(peerswapPkg) {
			continue
		}
		n := c.bgNameL(g.Raw)
		if n != "obs" && n != "elw" && n != "rec" && !strings.HasPrefix(n, "acb") {
			continue
		}
		if cur, ok := out[n]; ok && cur != "idle" {
			continue // e.g. the observation loop of the stopped process still idles next to the new one
		}
		switch {
		case n == "elw" && !g.has("liquidBlockHeaderSubscriber).Update"):
			// idle in its select
		case n == "obs" && g.State == "select":
			if _, ok := out[n]; !ok {
				out[n] = "idle"
			}
		default:
			out[n] = "blocked"
		}
	}
	return out
}

func allOf(bl []Blocked) string {
	var parts []string
	for _, b := range bl {
		parts = append(parts, b.P+":"+b.At)
	}
	sort.Strings(parts)
	return strings.Join(parts, "+")
}
