// Package locks runs the REAL swap.SwapService (real FSM, actions, bbolt store,
// policy, retransmission manager) together with the REAL chain watchers
// (txwatcher.BlockchainRpcTxWatcher over a fake bitcoind/elementsd RPC, the LWK
// electrumTxWatcher with the electrum block subscriber over a fake Electrum
// server) concurrently, for the properties C18 (no deadlock) and C19 (no data
// race). Every call of a simulated service is a *gate*: in deterministic mode
// the controller parks goroutines at gates and thereby executes the schedules
// exported by TLC from spec/Locks.tla; in stress mode gates only perturb timing.
package locks

import (
	"bytes"
	"fmt"
	"math/rand/v2"
	"regexp"
	"runtime"
	"sort"
	"strconv"
	"strings"
	"sync"
	"sync/atomic"
	"time"

	"verif/harness/ndj"
)

// Ev is one trace event.
type Ev map[string]any

// Proc is one concurrent entry-point invocation started by the driver (or a
// background goroutine of the real code recognised by its stack).
type Proc struct {
	Name    string
	Entry   string
	goid    int64
	started bool
	done    bool
	res     string
}

// Ctl is the gate controller and trace writer of one world.
type Ctl struct {
	mu     sync.Mutex
	out    *ndj.Writer
	T      int
	seq    int
	Det    bool // deterministic mode: park at every gate, one goroutine runs at a time
	byGoid map[int64]*Proc
	Procs  map[string]*Proc
	occ    map[string]int
	parked map[string][]chan struct{} // proc name -> release channels (FIFO)
	at     map[string]string          // proc name -> gate it is parked at
	free   bool                       // det mode, but gates no longer park (final release)
	self   int64                      // goroutine id of the driver
	Jitter int                        // stress: 1/Jitter of the gates yield the processor
	old    map[int64]bool             // goroutines that existed before this world (left over from earlier cases)
	names  map[int64]string           // every goroutine that was ever named (drivers, background), also after it ended
	// stress: latency of the simulated bitcoind / elementsd / Electrum answers, so that code which
	// releases a lock around an RPC exposes its window: usually up to LatUs microseconds, in LongPct
	// percent of the calls up to LongMs milliseconds
	LatUs, LongPct, LongMs atomic.Int32
}

func NewCtl(t int, out *ndj.Writer, det bool) *Ctl {
	c := &Ctl{out: out, T: t, Det: det, byGoid: map[int64]*Proc{}, Procs: map[string]*Proc{}, occ: map[string]int{},
		parked: map[string][]chan struct{}{}, at: map[string]string{}, self: goid(), Jitter: 3, old: map[int64]bool{}, names: map[int64]string{}}
	for _, g := range dumpAll() {
		c.old[g.ID] = true
	}
	return c
}

func goid() int64 {
	var b [64]byte
	n := runtime.Stack(b[:], false)
	// "goroutine 123 ["
	f := bytes.Fields(b[:n])
	if len(f) < 2 {
		return -1
	}
	id, _ := strconv.ParseInt(string(f[1]), 10, 64)
	return id
}

// Emit writes one sequence-numbered trace event.
func (c *Ctl) Emit(ev string, f Ev) {
	c.mu.Lock()
	c.emitLocked(ev, f)
	c.mu.Unlock()
}

func (c *Ctl) emitLocked(ev string, f Ev) {
	if f == nil {
		f = Ev{}
	}
	c.seq++
	f["t"] = c.T
	f["seq"] = c.seq
	f["ev"] = ev
	c.out.Write(f)
}

var createdBy = regexp.MustCompile(`created by .* in goroutine (\d+)`)

// bgName classifies a goroutine of the real code that the driver did not start.
// The goroutine AddWaitForCsvTx starts for its callback is named after its creator.
func (c *Ctl) bgName(stack string) string {
	switch {
	case strings.Contains(stack, "BlockchainRpcTxWatcher).AddWaitForCsvTx.func"):
		parent := ""
		if m := createdBy.FindStringSubmatch(stack); m != nil {
			id, _ := strconv.ParseInt(m[1], 10, 64)
			parent = c.names[id]
		}
		return "acb" + parent
	case strings.Contains(stack, "BlockchainRpcTxWatcher).observationLoop"):
		return "obs"
	case strings.Contains(stack, "electrumTxWatcher).StartWatchingTxs"):
		return "elw"
	case strings.Contains(stack, "BlockchainRpcTxWatcher).StartBlockWatcher"):
		return "poll"
	case strings.Contains(stack, "BlockchainRpcTxWatcher).StartWatchingTxs"):
		return "disp"
	case strings.Contains(stack, "SwapService).RecoverSwaps.func"):
		return "rec"
	case strings.Contains(stack, "RedundantMessenger).SendMessage.func"):
		return "rtx"
	}
	return "bg"
}

func (c *Ctl) bgNameL(stack string) string {
	c.mu.Lock()
	defer c.mu.Unlock()
	return c.bgName(stack)
}

func (c *Ctl) whoami() string {
	id := goid()
	c.mu.Lock()
	defer c.mu.Unlock()
	if p := c.byGoid[id]; p != nil {
		return p.Name
	}
	if n, ok := c.names[id]; ok {
		return n
	}
	b := make([]byte, 16384)
	b = b[:runtime.Stack(b, false)]
	n := c.bgName(string(b))
	c.names[id] = n
	return n
}

// Gate is called by every simulated service BEFORE it answers.
func (c *Ctl) Gate(name string) {
	if !c.Det {
		if lat := int(c.LatUs.Load()); lat > 0 && (strings.HasPrefix(name, "rpc.") || strings.HasPrefix(name, "el.")) {
			d := time.Duration(rand.IntN(lat)+1) * time.Microsecond
			if pct := int(c.LongPct.Load()); pct > 0 && rand.IntN(100) < pct {
				d = time.Duration(rand.IntN(int(c.LongMs.Load()))+1) * time.Millisecond
			}
			time.Sleep(d)
			return
		}
		if c.Jitter > 0 && rand.IntN(c.Jitter) == 0 {
			if rand.IntN(4) == 0 {
				time.Sleep(time.Duration(rand.IntN(200)) * time.Microsecond)
			} else {
				runtime.Gosched()
			}
		}
		return
	}
	pn := c.whoami()
	c.mu.Lock()
	if pn == "drv" {
		c.mu.Unlock()
		return
	}
	k := pn + "/" + name
	c.occ[k]++
	c.emitLocked("gate", Ev{"p": pn, "g": name, "k": c.occ[k]})
	if c.free {
		c.mu.Unlock()
		return
	}
	ch := make(chan struct{})
	c.parked[pn] = append(c.parked[pn], ch)
	c.at[pn] = name
	c.mu.Unlock()
	<-ch
}

// Release lets the goroutine(s) of proc pn parked at a gate continue.
func (c *Ctl) Release(pn string) bool {
	c.mu.Lock()
	chs := c.parked[pn]
	delete(c.parked, pn)
	delete(c.at, pn)
	c.mu.Unlock()
	for _, ch := range chs {
		close(ch)
	}
	return len(chs) > 0
}

// ReleaseAll ends deterministic parking: everything runs freely from now on.
func (c *Ctl) ReleaseAll() {
	c.mu.Lock()
	c.free = true
	all := c.parked
	c.parked = map[string][]chan struct{}{}
	c.at = map[string]string{}
	c.mu.Unlock()
	for _, chs := range all {
		for _, ch := range chs {
			close(ch)
		}
	}
}

func (c *Ctl) ParkedAt(pn string) string {
	c.mu.Lock()
	defer c.mu.Unlock()
	return c.at[pn]
}

// Go starts entry point f as process pn in its own goroutine.
func (c *Ctl) Go(pn, entry string, f func() string) *Proc {
	p := &Proc{Name: pn, Entry: entry}
	c.mu.Lock()
	c.Procs[pn] = p
	c.mu.Unlock()
	ready := make(chan struct{})
	go func() {
		id := goid()
		c.mu.Lock()
		p.goid = id
		c.byGoid[id] = p
		c.names[id] = pn
		p.started = true
		c.emitLocked("start", Ev{"p": pn, "e": entry})
		c.mu.Unlock()
		close(ready)
		res := func() (r string) {
			defer func() {
				if x := recover(); x != nil {
					r = fmt.Sprintf("panic: %v", x)
				}
			}()
			return f()
		}()
		c.mu.Lock()
		p.done = true
		p.res = res
		delete(c.byGoid, id)
		c.emitLocked("ret", Ev{"p": pn, "e": entry, "res": res})
		c.mu.Unlock()
	}()
	<-ready
	return p
}

func (c *Ctl) Done(pn string) bool {
	c.mu.Lock()
	defer c.mu.Unlock()
	p := c.Procs[pn]
	return p != nil && p.done
}

// ---- goroutine dumps -------------------------------------------------------

// G is one goroutine of a dump.
type G struct {
	ID     int64
	State  string
	Frames []string // function names, innermost first
	Raw    string
}

// dump returns the goroutines that belong to this world.
func (c *Ctl) dump() []G {
	all := dumpAll()
	out := all[:0]
	for _, g := range all {
		if !c.old[g.ID] || g.ID == c.self {
			out = append(out, g)
		}
	}
	return out
}

func dumpAll() []G {
	buf := make([]byte, 1<<20)
	for {
		n := runtime.Stack(buf, true)
		if n < len(buf) {
			buf = buf[:n]
			break
		}
		buf = make([]byte, 2*len(buf))
	}
	var out []G
	for _, blk := range strings.Split(string(buf), "\n\n") {
		lines := strings.Split(strings.TrimSpace(blk), "\n")
		if len(lines) == 0 || !strings.HasPrefix(lines[0], "goroutine ") {
			continue
		}
		h := lines[0]
		g := G{Raw: blk}
		f := strings.Fields(h)
		g.ID, _ = strconv.ParseInt(f[1], 10, 64)
		if i := strings.Index(h, "["); i >= 0 {
			st := h[i+1:]
			if j := strings.IndexAny(st, ",]"); j >= 0 {
				st = st[:j]
			}
			g.State = st
		}
		for _, l := range lines[1:] {
			if strings.HasPrefix(l, "\t") || strings.HasPrefix(l, "created by") {
				continue
			}
			if i := strings.LastIndex(l, "("); i > 0 {
				l = l[:i]
			}
			g.Frames = append(g.Frames, l)
		}
		out = append(out, g)
	}
	return out
}

func (g *G) has(sub string) bool {
	for _, f := range g.Frames {
		if strings.Contains(f, sub) {
			return true
		}
	}
	return false
}

const peerswapPkg = "github.com/elementsproject/peerswap/"

func (g *G) relevant() bool {
	return g.has(peerswapPkg) || g.has("verif/harness/locks.(*Ctl).Go.func") || g.has("verif/harness/locks.(*Ctl).Gate")
}

// stable: the goroutine can not continue without another goroutine acting.
func (g *G) stable() bool {
	switch g.State {
	case "running", "runnable", "syscall", "sleep", "IO wait", "preempted", "copystack":
		return false
	}
	if strings.HasPrefix(g.State, "GC") {
		return false
	}
	if (g.State == "select" || g.State == "chan receive") && len(g.Frames) > 0 {
		// timed waits of the real code (its own select on a ticker) are not stable states
		if strings.Contains(g.Frames[0], "ValidateTxAndPayClaimInvoiceAction).Execute") || strings.Contains(g.Frames[0], "timer.TimedCallback") {
			return false
		}
	}
	return true
}

// Settle waits until no goroutine of the system under test can move: each is
// parked at a gate, blocked on a lock / channel, or has returned.
func (c *Ctl) Settle(max time.Duration) (bool, []G) {
	deadline := time.Now().Add(max)
	okRuns := 0
	for {
		gs := c.dump()
		all := true
		for i := range gs {
			g := &gs[i]
			if g.ID == c.self || !g.relevant() {
				continue
			}
			if !g.stable() {
				all = false
				break
			}
		}
		if all {
			okRuns++
			if okRuns >= 2 {
				return true, gs
			}
			time.Sleep(200 * time.Microsecond)
			continue
		}
		okRuns = 0
		if time.Now().After(deadline) {
			return false, gs
		}
		time.Sleep(100 * time.Microsecond)
	}
}

// short name of a peerswap function: "swap.(*SwapService).OnCsvPassed"
func shortFn(f string) string {
	f = strings.TrimPrefix(f, peerswapPkg)
	return f
}

// PeerswapFrames returns the peerswap frames of a goroutine, innermost first.
func (g *G) PeerswapFrames() []string {
	var out []string
	for _, f := range g.Frames {
		if strings.HasPrefix(f, peerswapPkg) {
			out = append(out, shortFn(f))
		}
	}
	return out
}

// Blocked describes the unreturned processes at the end of a schedule.
type Blocked struct {
	P      string   `json:"p"`
	Entry  string   `json:"e"`
	State  string   `json:"state"`
	Frames []string `json:"frames"`
	At     string   `json:"at"` // compact wait site: state@f0<f1<f2
}

func method(f string) string {
	// "swap.(*SwapStateMachine).SendEvent" -> "SendEvent"; keep closures "func1"
	if i := strings.LastIndex(f, ")."); i >= 0 {
		return f[i+2:]
	}
	if i := strings.Index(f, "."); i >= 0 {
		return f[i+1:]
	}
	return f
}

func (c *Ctl) unreturned(gs []G) []Blocked {
	c.mu.Lock()
	var ps []*Proc
	for _, p := range c.Procs {
		if p.started && !p.done {
			ps = append(ps, p)
		}
	}
	c.mu.Unlock()
	sort.Slice(ps, func(i, j int) bool { return ps[i].Name < ps[j].Name })
	var out []Blocked
	for _, p := range ps {
		b := Blocked{P: p.Name, Entry: p.Entry, State: "gone"}
		for i := range gs {
			if gs[i].ID == p.goid {
				b.State = gs[i].State
				b.Frames = gs[i].PeerswapFrames()
				if len(b.Frames) > 12 {
					b.Frames = b.Frames[:12]
				}
			}
		}
		var m []string
		for i, f := range b.Frames {
			if i >= 3 {
				break
			}
			m = append(m, method(f))
		}
		b.At = b.State + "@" + strings.Join(m, "<")
		out = append(out, b)
	}
	return out
}
